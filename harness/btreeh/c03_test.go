// Package btreeh holds the harness for C03 (B-tree: sorted-set equivalence, scans, clone isolation).
package btreeh

import (
	"fmt"
	"sort"
	"testing"
	"time"

	"github.com/anishathalye/porcupine"
	"github.com/pinealctx/neptune/ds/tree"
	"github.com/pinealctx/neptune/ds/tree/btree"
	"pgregory.net/rapid"
	"verif.local/harness/hx"
	"verif.local/simrt"
)

// KV is the stored item: ordered by K, payload P tells stored generations apart.
type KV struct{ K, P int }

func (a KV) Less(b btree.Item) bool { return a.K < b.(KV).K }

type tOp struct {
	Op     string `json:"op"`
	K      int    `json:"k"`
	K2     int    `json:"k2"` // update: new key; range scans: second bound
	P      int    `json:"p"`
	N      int    `json:"n"`      // scan limit (wrapper)
	Filter int    `json:"filter"` // 0 all, 1 even keys, 2 none, 3 odd payloads
	Sub    []tOp  `json:"sub,omitempty"`
}

type C03Scenario struct {
	Knobs  hx.SimKnobs `json:"knobs"`
	Mode   string      `json:"mode"` // wrapper-conc | wrapper-seq | core-seq | clones
	Degree int         `json:"degree"`
	Base   []tOp       `json:"base,omitempty"` // clones: operations that build the tree before cloning
	Tasks  [][]tOp     `json:"tasks"`
	// clones: Tasks[i] runs on tree i; tree 0 is the original, tree i>0 is a clone of tree Parent[i]
	Parent []int `json:"parent,omitempty"`
	// Bulk > 0 (wrapper-seq, core-seq): the tree first receives the keys 0..Bulk-1; the operations that follow use scan limits
	// below and above that number
	Bulk int `json:"bulk,omitempty"`
}

var (
	wrapperOps = []string{"insert", "insert", "insert", "update", "updorins", "delete", "get", "ascgte", "ascgt", "desclte", "desclt"}
	coreOps    = []string{"insert", "insert", "insert", "insert", "insert", "delete", "delete", "get", "has", "min", "max", "len", "delmin", "delmax", "clear",
		"ascgte", "ascgt", "desclte", "desclt", "ascrange", "asclt", "descrange", "descgt", "asc", "desc"}
)

func drawOps(rt *rapid.T, n int, choices []string, nextP *int, keyMax int) []tOp {
	var ops []tOp
	for j := 0; j < n; j++ {
		op := tOp{Op: rapid.SampledFrom(choices).Draw(rt, "op")}
		op.K = rapid.IntRange(-2, keyMax+2).Draw(rt, "k")
		op.K2 = rapid.IntRange(-2, keyMax+2).Draw(rt, "k2")
		op.P = *nextP
		*nextP++
		op.N = rapid.SampledFrom([]int{0, 1, 3, 100}).Draw(rt, "n")
		op.Filter = rapid.SampledFrom([]int{0, 0, 1, 2, 3}).Draw(rt, "filter")
		ops = append(ops, op)
	}
	return ops
}

func drawC03(rt *rapid.T) interface{} {
	sc := &C03Scenario{}
	sc.Mode = rapid.SampledFrom([]string{"wrapper-conc", "wrapper-seq", "core-seq", "core-seq", "clones", "clones"}).Draw(rt, "mode")
	sc.Degree = rapid.SampledFrom([]int{2, 2, 3, 4, 8}).Draw(rt, "degree")
	keyMax := rapid.SampledFrom([]int{6, 15, 40, hx.Pick(40, 120)}).Draw(rt, "keymax")
	nextP := 1
	if (sc.Mode == "wrapper-seq" || sc.Mode == "core-seq") && hx.Rare(rt, hx.Pick(500, 100), "bulk") {
		// a tree of more than a thousand items, a few operations on it, scans that want more items than any small tree holds
		sc.Bulk = rapid.SampledFrom([]int{1030, 1500, 2100}).Draw(rt, "bulkn")
		nextP = sc.Bulk + 1
		ops := drawOps(rt, rapid.IntRange(1, 10).Draw(rt, "bulkops"), map[bool][]string{true: wrapperOps, false: coreOps}[sc.Mode == "wrapper-seq"], &nextP, sc.Bulk)
		for i := range ops {
			ops[i].N = rapid.SampledFrom([]int{1, 100, 1023, 1024, 1025, 2000, 100000}).Draw(rt, "bulklimit")
			ops[i].Filter = rapid.SampledFrom([]int{0, 0, 0, 1}).Draw(rt, "bulkfilter")
			if ops[i].Op == "clear" {
				ops[i].Op = "len"
			}
		}
		sc.Tasks = [][]tOp{ops}
		sc.Knobs = hx.DrawKnobs(rt, []int{10})
		return sc
	}
	switch sc.Mode {
	case "wrapper-conc":
		nt := rapid.IntRange(2, 4).Draw(rt, "ntasks")
		for i := 0; i < nt; i++ {
			sc.Tasks = append(sc.Tasks, drawOps(rt, rapid.IntRange(1, 7).Draw(rt, "nops"), wrapperOps, &nextP, keyMax))
		}
		sc.Knobs = hx.DrawKnobs(rt, []int{100, 30, 10})
	case "wrapper-seq":
		sc.Tasks = [][]tOp{drawOps(rt, rapid.IntRange(1, hx.Pick(60, 200)).Draw(rt, "nops"), wrapperOps, &nextP, keyMax)}
		sc.Knobs = hx.DrawKnobs(rt, []int{10})
	case "core-seq":
		sc.Tasks = [][]tOp{drawOps(rt, rapid.IntRange(1, hx.Pick(80, 300)).Draw(rt, "nops"), coreOps, &nextP, keyMax)}
		sc.Knobs = hx.DrawKnobs(rt, []int{10})
	default:
		sc.Base = drawOps(rt, rapid.IntRange(0, 40).Draw(rt, "nbase"), []string{"insert", "insert", "insert", "delete"}, &nextP, keyMax)
		nt := rapid.IntRange(2, 4).Draw(rt, "ntrees")
		sc.Parent = []int{-1}
		for i := 1; i < nt; i++ {
			sc.Parent = append(sc.Parent, rapid.IntRange(0, i-1).Draw(rt, "parent"))
		}
		for i := 0; i < nt; i++ {
			sc.Tasks = append(sc.Tasks, drawOps(rt, rapid.IntRange(1, hx.Pick(25, 60)).Draw(rt, "nops"), coreOps, &nextP, keyMax))
		}
		sc.Knobs = hx.DrawKnobs(rt, []int{300, 100, 30})
	}
	return sc
}

// ---- sorted-set model

type model struct{ items []KV } // ascending by K

func (m model) clone() model { return model{items: append([]KV{}, m.items...)} }

func (m model) find(k int) (int, bool) {
	i := sort.Search(len(m.items), func(i int) bool { return m.items[i].K >= k })
	return i, i < len(m.items) && m.items[i].K == k
}

func (m *model) put(kv KV) (old KV, had bool) {
	i, ok := m.find(kv.K)
	if ok {
		old = m.items[i]
		m.items[i] = kv
		return old, true
	}
	m.items = append(m.items, KV{})
	copy(m.items[i+1:], m.items[i:])
	m.items[i] = kv
	return KV{}, false
}

func (m *model) del(k int) (KV, bool) {
	i, ok := m.find(k)
	if !ok {
		return KV{}, false
	}
	old := m.items[i]
	m.items = append(m.items[:i], m.items[i+1:]...)
	return old, true
}

func passes(f int, kv KV) bool {
	switch f {
	case 1:
		return kv.K%2 == 0
	case 2:
		return false
	case 3:
		return kv.P%2 != 0
	}
	return true
}

// scan returns the items of a scan in scan order (before filter/limit).
func (m model) scan(op string, k, k2 int) []KV {
	var out []KV
	asc := func(pred func(KV) bool) {
		for _, it := range m.items {
			if pred(it) {
				out = append(out, it)
			}
		}
	}
	desc := func(pred func(KV) bool) {
		for i := len(m.items) - 1; i >= 0; i-- {
			if pred(m.items[i]) {
				out = append(out, m.items[i])
			}
		}
	}
	switch op {
	case "ascgte":
		asc(func(x KV) bool { return x.K >= k })
	case "ascgt":
		asc(func(x KV) bool { return x.K > k })
	case "desclte":
		desc(func(x KV) bool { return x.K <= k })
	case "desclt":
		desc(func(x KV) bool { return x.K < k })
	case "ascrange":
		asc(func(x KV) bool { return x.K >= k && x.K < k2 })
	case "asclt":
		asc(func(x KV) bool { return x.K < k })
	case "descrange":
		desc(func(x KV) bool { return x.K <= k && x.K > k2 })
	case "descgt":
		desc(func(x KV) bool { return x.K > k })
	case "asc":
		asc(func(KV) bool { return true })
	case "desc":
		desc(func(KV) bool { return true })
	}
	return out
}

func limitFilter(in []KV, f, n int) []KV {
	var out []KV
	for _, it := range in {
		if len(out) >= n {
			break
		}
		if passes(f, it) {
			out = append(out, it)
		}
	}
	return out
}

// apply runs a wrapper operation on the model: returns expected output string.
func (m *model) applyWrapper(op tOp) string {
	switch op.Op {
	case "insert":
		m.put(KV{op.K, op.P})
		return ""
	case "update":
		if _, ok := m.del(op.K); !ok {
			return "false"
		}
		m.put(KV{op.K2, op.P})
		return "true"
	case "updorins":
		_, ok := m.del(op.K)
		m.put(KV{op.K2, op.P})
		return fmt.Sprint(ok)
	case "delete":
		_, ok := m.del(op.K)
		return fmt.Sprint(ok)
	case "get":
		if i, ok := m.find(op.K); ok {
			return fmt.Sprint(m.items[i])
		}
		return "<nil>"
	default:
		return fmt.Sprint(limitFilter(m.scan(op.Op, op.K, 0), op.Filter, op.N))
	}
}

func doWrapper(b *tree.BTree, op tOp) string {
	filter := func(n tree.Node) bool { return passes(op.Filter, n.(KV)) }
	conv := func(ns []tree.Node) string {
		var out []KV
		for _, n := range ns {
			out = append(out, n.(KV))
		}
		return fmt.Sprint(out)
	}
	switch op.Op {
	case "insert":
		b.Insert(KV{op.K, op.P})
		return ""
	case "update":
		return fmt.Sprint(b.Update(KV{K: op.K}, KV{op.K2, op.P}))
	case "updorins":
		return fmt.Sprint(b.UpdateOrInsert(KV{K: op.K}, KV{op.K2, op.P}))
	case "delete":
		return fmt.Sprint(b.Delete(KV{K: op.K}))
	case "get":
		return fmt.Sprint(b.Get(KV{K: op.K}))
	case "ascgte":
		return conv(b.AscendGte(KV{K: op.K}, filter, op.N))
	case "ascgt":
		return conv(b.AscendGt(KV{K: op.K}, filter, op.N))
	case "desclte":
		return conv(b.DescendLte(KV{K: op.K}, filter, op.N))
	case "desclt":
		return conv(b.DescendLt(KV{K: op.K}, filter, op.N))
	}
	panic("op " + op.Op)
}

func item(i btree.Item) string {
	if i == nil {
		return "<nil>"
	}
	return fmt.Sprint(i.(KV))
}

// doCore runs a core operation on tree and model; returns (got, want).
func doCore(t *btree.BTree, m *model, op tOp) (string, string) {
	collect := func(run func(it btree.ItemIterator)) string {
		var out []KV
		n := 0
		run(func(i btree.Item) bool {
			// stop after N accepted items when N > 0 (iterator-controlled early exit), filter applied by the iterator
			if passes(op.Filter, i.(KV)) {
				out = append(out, i.(KV))
				n++
			}
			return op.N == 0 || n < op.N
		})
		return fmt.Sprint(out)
	}
	want := func(op2 string) string {
		lim := op.N
		if lim == 0 {
			lim = 1 << 30
		}
		return fmt.Sprint(limitFilter(m.scan(op2, op.K, op.K2), op.Filter, lim))
	}
	optKV := func(kv KV, ok bool) string {
		if !ok {
			return "<nil>"
		}
		return fmt.Sprint(kv)
	}
	switch op.Op {
	case "insert":
		old, had := m.put(KV{op.K, op.P})
		return item(t.ReplaceOrInsert(KV{op.K, op.P})), optKV(old, had)
	case "delete":
		old, had := m.del(op.K)
		return item(t.Delete(KV{K: op.K})), optKV(old, had)
	case "get":
		i, ok := m.find(op.K)
		w := "<nil>"
		if ok {
			w = fmt.Sprint(m.items[i])
		}
		return item(t.Get(KV{K: op.K})), w
	case "has":
		_, ok := m.find(op.K)
		return fmt.Sprint(t.Has(KV{K: op.K})), fmt.Sprint(ok)
	case "min":
		w := "<nil>"
		if len(m.items) > 0 {
			w = fmt.Sprint(m.items[0])
		}
		return item(t.Min()), w
	case "max":
		w := "<nil>"
		if len(m.items) > 0 {
			w = fmt.Sprint(m.items[len(m.items)-1])
		}
		return item(t.Max()), w
	case "len":
		return fmt.Sprint(t.Len()), fmt.Sprint(len(m.items))
	case "clear":
		// Clear(addNodesToFreelist): the tree is empty afterwards; with the flag its own nodes go back to the (shared)
		// free list, nodes it shares with a clone must be left alone
		m.items = nil
		t.Clear(op.K%2 == 0)
		return fmt.Sprint(t.Len()), "0"
	case "delmin":
		w := "<nil>"
		if len(m.items) > 0 {
			w = fmt.Sprint(m.items[0])
			m.items = m.items[1:]
		}
		return item(t.DeleteMin()), w
	case "delmax":
		w := "<nil>"
		if len(m.items) > 0 {
			w = fmt.Sprint(m.items[len(m.items)-1])
			m.items = m.items[:len(m.items)-1]
		}
		return item(t.DeleteMax()), w
	case "ascgte":
		return collect(func(it btree.ItemIterator) { t.AscendGreaterOrEqual(KV{K: op.K}, it) }), want("ascgte")
	case "ascgt":
		return collect(func(it btree.ItemIterator) { t.AscendGreater(KV{K: op.K}, it) }), want("ascgt")
	case "desclte":
		return collect(func(it btree.ItemIterator) { t.DescendLessOrEqual(KV{K: op.K}, it) }), want("desclte")
	case "desclt":
		return collect(func(it btree.ItemIterator) { t.DescendLess(KV{K: op.K}, it) }), want("desclt")
	case "ascrange":
		return collect(func(it btree.ItemIterator) { t.AscendRange(KV{K: op.K}, KV{K: op.K2}, it) }), want("ascrange")
	case "asclt":
		return collect(func(it btree.ItemIterator) { t.AscendLessThan(KV{K: op.K}, it) }), want("asclt")
	case "descrange":
		return collect(func(it btree.ItemIterator) { t.DescendRange(KV{K: op.K}, KV{K: op.K2}, it) }), want("descrange")
	case "descgt":
		return collect(func(it btree.ItemIterator) { t.DescendGreaterThan(KV{K: op.K}, it) }), want("descgt")
	case "asc":
		return collect(func(it btree.ItemIterator) { t.Ascend(it) }), want("asc")
	case "desc":
		return collect(func(it btree.ItemIterator) { t.Descend(it) }), want("desc")
	}
	panic("op " + op.Op)
}

func wrapperModel() porcupine.Model {
	return porcupine.Model{
		Init: func() interface{} { return model{} },
		Step: func(st, in, out interface{}) (bool, interface{}) {
			m := st.(model).clone()
			want := m.applyWrapper(in.(tOp))
			return want == out.(string), m
		},
		Equal: func(a, b interface{}) bool {
			x, y := a.(model), b.(model)
			if len(x.items) != len(y.items) {
				return false
			}
			for i := range x.items {
				if x.items[i] != y.items[i] {
					return false
				}
			}
			return true
		},
		DescribeOperation: func(in, out interface{}) string { return fmt.Sprintf("%+v -> %v", in, out) },
	}
}

func runC03(t *testing.T, sci interface{}, keepLog bool) *hx.Outcome {
	sc := sci.(*C03Scenario)
	h := &hx.History{}
	main := func(s *simrt.Sim) {
		switch sc.Mode {
		case "wrapper-conc", "wrapper-seq":
			b := tree.NewBTree()
			m := model{}
			for k := 0; k < sc.Bulk; k++ {
				op := tOp{Op: "insert", K: k, P: k + 1}
				doWrapper(b, op)
				m.applyWrapper(op)
			}
			if sc.Bulk > 0 {
				s.Count("tree-of-more-than-1024-items")
			}
			var ts []*simrt.Task
			for ti, ops := range sc.Tasks {
				ti, ops := ti, ops
				ts = append(ts, simrt.GoNamed(fmt.Sprintf("client%d", ti), func() {
					me := simrt.Cur()
					for _, op := range ops {
						call := h.Invoke()
						me.EnterAPI(op.Op)
						got := doWrapper(b, op)
						me.ExitAPI()
						h.Return(ti, call, op, got)
						s.Logf("c%d %s k=%d k2=%d p=%d n=%d f=%d -> %s", ti, op.Op, op.K, op.K2, op.P, op.N, op.Filter, got)
						if sc.Mode == "wrapper-seq" {
							want := m.applyWrapper(op)
							if got != want {
								s.Fail("not-a-sorted-set", "%s(k=%d k2=%d n=%d filter=%d) returned %s, a sorted set gives %s", op.Op, op.K, op.K2, op.N, op.Filter, got, want)
								return
							}
							if err := b.VerifInner().VerifCheck(); err != nil {
								s.Fail("btree-unbalanced", "after %s(k=%d): %v", op.Op, op.K, err)
								return
							}
						}
						simrt.Yield()
					}
				}))
			}
			hx.WaitDone(s, ts...)
			if err := b.VerifInner().VerifCheck(); err != nil {
				s.Fail("btree-unbalanced", "at the end: %v", err)
			}
			// final full scan closes the history
			op := tOp{Op: "ascgte", K: -1000, N: 100}
			call := h.Invoke()
			got := doWrapper(b, op)
			h.Return(len(sc.Tasks), call, op, got)
			s.Logf("final scan -> %s", got)
		case "core-seq":
			tr := btree.New(sc.Degree)
			m := model{}
			for k := 0; k < sc.Bulk; k++ {
				doCore(tr, &m, tOp{Op: "insert", K: k, P: k + 1})
			}
			if sc.Bulk > 0 {
				s.Count("tree-of-more-than-1024-items")
			}
			for _, op := range sc.Tasks[0] {
				got, want := doCore(tr, &m, op)
				s.Logf("%s k=%d k2=%d p=%d n=%d f=%d -> %s", op.Op, op.K, op.K2, op.P, op.N, op.Filter, got)
				if got != want {
					s.Fail("not-a-sorted-set", "degree %d: %s(k=%d k2=%d n=%d filter=%d) returned %s, a sorted set gives %s", sc.Degree, op.Op, op.K, op.K2, op.N, op.Filter, got, want)
					return
				}
				if err := tr.VerifCheck(); err != nil {
					s.Fail("btree-unbalanced", "degree %d after %s(k=%d): %v", sc.Degree, op.Op, op.K, err)
					return
				}
			}
		case "clones":
			fl := btree.NewFreeList(4) // small shared free list: node reuse across trees
			trees := []*btree.BTree{btree.NewWithFreeList(sc.Degree, fl)}
			models := []*model{{}}
			for _, op := range sc.Base {
				doCore(trees[0], models[0], op)
			}
			for i := 1; i < len(sc.Parent); i++ {
				trees = append(trees, trees[sc.Parent[i]].Clone())
				mc := models[sc.Parent[i]].clone()
				models = append(models, &mc)
			}
			var ts []*simrt.Task
			for ti, ops := range sc.Tasks {
				ti, ops := ti, ops
				ts = append(ts, simrt.GoNamed(fmt.Sprintf("tree%d", ti), func() {
					for _, op := range ops {
						got, want := doCore(trees[ti], models[ti], op)
						s.Logf("t%d %s k=%d k2=%d p=%d -> %s", ti, op.Op, op.K, op.K2, op.P, got)
						if got != want {
							s.Fail("clone-not-isolated", "tree %d (clone of %d): %s(k=%d k2=%d) returned %s, its own sorted set gives %s (another tree's write leaked in, or its own was lost)", ti, sc.Parent[ti], op.Op, op.K, op.K2, got, want)
							return
						}
						simrt.Yield()
					}
				}))
			}
			hx.WaitDone(s, ts...)
			if s.Failed() {
				return
			}
			for ti := range trees {
				if err := trees[ti].VerifCheck(); err != nil {
					s.Fail("btree-unbalanced", "tree %d at the end: %v", ti, err)
					return
				}
				got, want := doCore(trees[ti], models[ti], tOp{Op: "asc"})
				if got != want {
					s.Fail("clone-not-isolated", "tree %d at the end holds %s, its own sorted set is %s", ti, got, want)
					return
				}
			}
		}
	}
	res := hx.RunSim(t, sc.Knobs.Config(keepLog, 400000), nil, main)
	o := hx.FromResult(res)
	if o.Class == "" && res.Stuck {
		o.Class, o.Msg = "stuck", "tasks never finished: "+hx.Unfinished(res)
	}
	if o.Counts == nil {
		o.Counts = map[string]int{}
	}
	o.Counts["mode-"+sc.Mode]++
	if sc.Mode == "wrapper-seq" || sc.Mode == "core-seq" {
		o.Nontrivial = len(sc.Tasks[0]) >= 3
	}
	if o.Class == "" && sc.Mode == "wrapper-conc" {
		switch hx.CheckLin(wrapperModel(), h, 20*time.Second) {
		case "illegal":
			o.Class = "wrapper-history-not-linearizable"
			o.Msg = "concurrent readers and writers of the locked wrapper: results are not those of one sorted set in any order consistent with real time"
		case "unknown":
			o.Counts["porcupine-unknown"]++
		default:
			o.Counts["porcupine-ok"]++
		}
	}
	return o
}

func TestC03(t *testing.T) {
	hx.Main(t, hx.Prop{
		ID:          "C03",
		Draw:        drawC03,
		NewScenario: func() interface{} { return &C03Scenario{} },
		Run:         runC03,
		Real:        []string{"ds/tree.BTree (locked wrapper) and ds/tree/btree (core, FreeList, Clone; simgen-transformed with statement-level preemption points)", "porcupine v1.3.0"},
		Stubs:       []string{"sync (simsync.RWMutex, simsync.Mutex of the shared FreeList)", "goroutine scheduling (simrt)"},
		Rule: "four scenario classes: wrapper-conc = 2-4 clients x up to 7 Insert/Update/UpdateOrInsert/Delete/Get/AscendGte/AscendGt/DescendLte/DescendLt (filters all/even/none/odd-payload, limits 0/1/3/100) checked with porcupine; wrapper-seq = up to 60 such ops checked op by op with the structural check; " +
			"core-seq = up to 80 core ops (all scans incl. ranges, DeleteMin/Max) at degree 2/3/4/8; clones = a base tree cloned 1-3 times (clone of clone), every tree driven by its own task concurrently against its own model, shared 4-node free list; keys dense in [-2, 8..42]; about 1 in 500 sequential scenarios (1 in 100 in the thorough tier) start from a tree holding 0..1029/1499/2099 and use scan limits 1-100000; " +
			"non-trivial = >=2 tasks and >=1 switch (or >=3 ops sequentially); distinct = distinct event-log hash",
		Probes:      []string{"mode-wrapper-conc", "mode-wrapper-seq", "mode-core-seq", "mode-clones", "porcupine-ok", "tree-of-more-than-1024-items"},
		Assumptions: []string{"Clone is taken while no task writes the tree being cloned (upstream contract); afterwards every tree is used by one task"},
	})
}
