package bytesh

import (
	"bufio"
	"bytes"
	"fmt"
	"io"
	"math"
	"strings"
	"testing"
	"testing/iotest"

	"github.com/pinealctx/neptune/bytex"
	"pgregory.net/rapid"
	"verif.local/harness/hx"
)

// C10: typed stream codec round-trips; the stream reader decodes what the buffer reader decodes under
// any fragmentation; truncated / arbitrary input gives errors, never panics or wrong values.

type item struct {
	Kind  string `json:"kind"` // bool u8 u16 i16 u32 i32 u64 i64 varu64 vari64 varu32 vari32 f64 str lstr raw
	U     uint64 `json:"u"`
	S     string `json:"s"`
	Limit uint32 `json:"limit"`
}

type C10Scenario struct {
	Source   string    `json:"source"` // stream/arbitrary: faulty | bytes.Buffer | bytes.Reader | strings.Reader | bufio | onebyte | halfreader | dataerr
	Class    string    `json:"class"`  // roundtrip | stream | arbitrary
	Items    []item    `json:"items"`
	Plan     FaultPlan `json:"plan"`
	Raw      []byte    `json:"raw,omitempty"` // arbitrary: decoder input
	RwPos    int       `json:"rw_pos"`        // roundtrip: in-place rewrite position (-1 none)
	RwBytes  []byte    `json:"rw_bytes,omitempty"`
	RwU32    bool      `json:"rw_u32"`
	RwU32Val uint32    `json:"rw_u32_val"`
	WSize    int       `json:"writer_size"` // -1: NewBufferX(); else NewSizedBufferX(size)
	// ResetPrelude: before the writes the buffer takes some junk and is Reset
	ResetPrelude bool `json:"reset_prelude"`
}

var allKinds = []string{"bool", "u8", "u16", "i16", "u32", "i32", "u64", "i64", "varu64", "vari64", "varu32", "vari32", "f64", "str", "lstr", "raw"}
var streamKinds = []string{"bool", "u8", "u16", "i16", "u32", "i32", "u64", "i64", "f64", "str", "str", "lstr", "raw"}

func drawItem(rt *rapid.T, kinds []string) item {
	it := item{Kind: rapid.SampledFrom(kinds).Draw(rt, "kind")}
	switch it.Kind {
	case "str", "lstr", "raw":
		it.S = rapid.SampledFrom([]string{"", "", "a", "hello", "\x00\xff", "0123456789abcdefghij", "héllo wörld ✓"}).Draw(rt, "s")
		if rapid.IntRange(0, 3).Draw(rt, "rnd") == 0 {
			it.S = string(rapid.SliceOfN(rapid.Byte(), 0, 40).Draw(rt, "bytes"))
		}
		if rapid.IntRange(0, 11).Draw(rt, "huge") == 0 {
			// bodies beyond common buffer sizes (4 KiB read-ahead buffers, 1 KiB initial capacity)
			n := rapid.SampledFrom([]int{1023, 1024, 1025, 4095, 4096, 4097, 6000, 9000}).Draw(rt, "hugelen")
			if rapid.IntRange(0, 15).Draw(rt, "vast") == 0 {
				// bodies around and beyond the 16-bit range (a length that is a whole number of 64 KiB blocks, or one off)
				n = rapid.SampledFrom([]int{65535, 65536, 65537, 70000, 131071, 131072, 131073, 196608, 262144}).Draw(rt, "vastlen")
			}
			fill := byte(rapid.IntRange(1, 255).Draw(rt, "fill"))
			b := make([]byte, n)
			for i := range b {
				b[i] = fill + byte(i%7)
			}
			it.S = string(b)
		}
		it.Limit = uint32(rapid.SampledFrom([]int{0, 1, 5, 20, 1000}).Draw(rt, "limit"))
	default:
		it.U = rapid.OneOf(rapid.Uint64(), rapid.SampledFrom([]uint64{0, 1, 127, 128, 255, 256, 1<<15 - 1, 1 << 15, 1<<16 - 1, 1<<31 - 1, 1 << 31, 1<<32 - 1, 1<<63 - 1, 1 << 63, math.MaxUint64,
			0x7ff8000000000001, 0x7ff0000000000001, 0xfff8000000000000, 0x7ff0000000000000})).Draw(rt, "u")
	}
	return it
}

func drawPlan(rt *rapid.T, n int) FaultPlan {
	p := FaultPlan{TruncAt: -1, FailAt: -1}
	switch rapid.IntRange(0, 3).Draw(rt, "chunking") {
	case 0:
		p.Chunks = []int{1}
	case 1:
		p.Chunks = rapid.SliceOfN(rapid.IntRange(1, 9), 1, 5).Draw(rt, "chunks")
	case 2:
		p.Chunks = nil
	default:
		p.Chunks = []int{rapid.IntRange(1, 64).Draw(rt, "chunk")}
	}
	p.ZeroEvery = rapid.SampledFrom([]int{0, 0, 2, 3, 7}).Draw(rt, "zero")
	p.EOFWithData = rapid.Bool().Draw(rt, "eofdata")
	switch rapid.IntRange(0, 5).Draw(rt, "cut") {
	case 0:
		p.TruncAt = rapid.IntRange(0, n).Draw(rt, "trunc")
	case 1:
		p.FailAt = rapid.IntRange(0, n).Draw(rt, "failat")
		p.ErrWithData = rapid.Bool().Draw(rt, "errwithdata")
	}
	return p
}

var sourceKinds = []string{"faulty", "faulty", "faulty", "bytes.Buffer", "bytes.Reader", "strings.Reader", "bufio", "onebyte", "halfreader", "dataerr"}

// mkSource builds the io.Reader handed to the stream reader. The standard-library readers matter as much as the
// simulated one: code may special-case a concrete reader type.
func mkSource(kind string, data []byte, plan FaultPlan) (io.Reader, *FaultyReader) {
	if plan.TruncAt >= 0 && plan.TruncAt < len(data) {
		data = data[:plan.TruncAt]
	}
	if plan.FailAt >= 0 && kind != "faulty" {
		kind = "faulty" // only the simulated reader can fail after k bytes
	}
	cp := append([]byte{}, data...)
	switch kind {
	case "bytes.Buffer":
		return bytes.NewBuffer(cp), nil
	case "bytes.Reader":
		return bytes.NewReader(cp), nil
	case "strings.Reader":
		return strings.NewReader(string(cp)), nil
	case "bufio":
		return bufio.NewReaderSize(bytes.NewReader(cp), 16), nil
	case "onebyte":
		return iotest.OneByteReader(bytes.NewReader(cp)), nil
	case "halfreader":
		return iotest.HalfReader(bytes.NewReader(cp)), nil
	case "dataerr":
		return iotest.DataErrReader(bytes.NewReader(cp)), nil
	}
	p2 := plan
	p2.TruncAt = -1
	fr := NewFaultyReader(cp, p2)
	return fr, fr
}

func drawC10(rt *rapid.T) interface{} {
	sc := &C10Scenario{RwPos: -1}
	sc.Source = rapid.SampledFrom(sourceKinds).Draw(rt, "source")
	sc.WSize = rapid.SampledFrom([]int{-1, -1, 0, 1, 4, 16, 100}).Draw(rt, "wsize")
	sc.Class = rapid.SampledFrom([]string{"roundtrip", "stream", "stream", "arbitrary"}).Draw(rt, "class")
	sc.ResetPrelude = rapid.IntRange(0, 3).Draw(rt, "resetprelude") == 0
	switch sc.Class {
	case "roundtrip":
		n := rapid.IntRange(0, 20).Draw(rt, "n")
		for i := 0; i < n; i++ {
			sc.Items = append(sc.Items, drawItem(rt, allKinds))
		}
		if rapid.Bool().Draw(rt, "rw") {
			sc.RwPos = rapid.IntRange(0, 200).Draw(rt, "rwpos")
			sc.RwU32 = rapid.Bool().Draw(rt, "rwu32")
			sc.RwU32Val = rapid.Uint32().Draw(rt, "rwval")
			sc.RwBytes = rapid.SliceOfN(rapid.Byte(), 0, 12).Draw(rt, "rwbytes")
		}
	case "stream":
		n := rapid.IntRange(0, 16).Draw(rt, "n")
		for i := 0; i < n; i++ {
			sc.Items = append(sc.Items, drawItem(rt, streamKinds))
		}
		sc.Plan = drawPlan(rt, 8*n+40)
	default:
		sc.Raw = rapid.SliceOfN(rapid.Byte(), 0, 48).Draw(rt, "rawin")
		// small length prefixes now and then, so that string reads get past the prefix
		if len(sc.Raw) >= 4 && rapid.Bool().Draw(rt, "smallprefix") {
			sc.Raw[1], sc.Raw[2], sc.Raw[3] = 0, 0, 0
			sc.Raw[0] = byte(rapid.IntRange(0, 12).Draw(rt, "plen"))
		}
		n := rapid.IntRange(1, 8).Draw(rt, "n")
		for i := 0; i < n; i++ {
			it := drawItem(rt, []string{"bool", "u8", "u16", "i16", "u32", "i32", "u64", "i64", "f64", "lstr", "lstr", "raw"})
			if it.Limit > 64 {
				it.Limit = 64
			}
			sc.Items = append(sc.Items, it)
		}
		sc.Plan = drawPlan(rt, len(sc.Raw))
		sc.Plan.TruncAt, sc.Plan.FailAt = -1, -1
	}
	return sc
}

func write(b *bytex.BufferX, it item) error {
	switch it.Kind {
	case "bool":
		b.WriteBool(it.U%2 == 1)
	case "u8":
		b.WriteU8(byte(it.U))
	case "u16":
		b.WriteU16(uint16(it.U))
	case "i16":
		b.WriteI16(int16(it.U))
	case "u32":
		b.WriteU32(uint32(it.U))
	case "i32":
		b.WriteI32(int32(it.U))
	case "u64":
		b.WriteU64(it.U)
	case "i64":
		b.WriteI64(int64(it.U))
	case "varu64":
		b.WriteVarU64(it.U)
	case "vari64":
		b.WriteVarI64(int64(it.U))
	case "varu32":
		b.WriteVarU32(uint32(it.U))
	case "vari32":
		b.WriteVarI32(int32(it.U))
	case "f64":
		b.WriteF64(math.Float64frombits(it.U))
	case "str":
		b.WriteString(it.S)
	case "lstr":
		return b.WriteLimitString(it.Limit, it.S)
	case "raw":
		// the usual caller pattern: fill a scratch buffer, Write it, refill it: the written bytes must have been copied
		if cap(scratch) < len(it.S) {
			scratch = make([]byte, len(it.S)+16)
		}
		p := scratch[:len(it.S)]
		copy(p, it.S)
		b.Write(p)
		for i := range p {
			p[i] ^= 0x5a
		}
	}
	return nil
}

var scratch []byte

// expected is the canonical rendering of the value a read of this item must return.
func expected(it item) string {
	switch it.Kind {
	case "bool":
		return fmt.Sprint(it.U%2 == 1)
	case "u8":
		return fmt.Sprint(byte(it.U))
	case "u16":
		return fmt.Sprint(uint16(it.U))
	case "i16":
		return fmt.Sprint(int16(it.U))
	case "u32", "varu32":
		return fmt.Sprint(uint32(it.U))
	case "i32", "vari32":
		return fmt.Sprint(int32(it.U))
	case "u64", "varu64":
		return fmt.Sprint(it.U)
	case "i64", "vari64":
		return fmt.Sprint(int64(it.U))
	case "f64":
		return fmt.Sprintf("f64bits:%x", it.U)
	}
	return fmt.Sprintf("%q", it.S)
}

type typedReader interface {
	ReadN(n int) ([]byte, error)
	ZReadN(n int) ([]byte, error)
	ReadBool() (bool, error)
	ReadLimitString(limit uint32) (string, error)
	ReadString() (string, error)
	ReadU16() (uint16, error)
	ReadI16() (int16, error)
	ReadU32() (uint32, error)
	ReadI32() (int32, error)
	ReadU64() (uint64, error)
	ReadI64() (int64, error)
	ReadF64() (float64, error)
}

// read performs the typed read for an item; returns the rendering of the value, or the error.
func read(r typedReader, bx *bytex.BufferX, rx *bytex.ReaderX, it item) (string, error) {
	switch it.Kind {
	case "bool":
		v, err := r.ReadBool()
		return fmt.Sprint(v), err
	case "u8":
		if bx != nil {
			v, err := bx.ReadU8()
			return fmt.Sprint(v), err
		}
		v, err := rx.ReadByte()
		return fmt.Sprint(v), err
	case "u16":
		v, err := r.ReadU16()
		return fmt.Sprint(v), err
	case "i16":
		v, err := r.ReadI16()
		return fmt.Sprint(v), err
	case "u32":
		v, err := r.ReadU32()
		return fmt.Sprint(v), err
	case "i32":
		v, err := r.ReadI32()
		return fmt.Sprint(v), err
	case "u64":
		v, err := r.ReadU64()
		return fmt.Sprint(v), err
	case "i64":
		v, err := r.ReadI64()
		return fmt.Sprint(v), err
	case "varu64":
		v, err := bx.ReadVarU64()
		return fmt.Sprint(v), err
	case "vari64":
		v, err := bx.ReadVarI64()
		return fmt.Sprint(v), err
	case "varu32":
		v, err := bx.ReadVarU32()
		return fmt.Sprint(v), err
	case "vari32":
		v, err := bx.ReadVarI32()
		return fmt.Sprint(v), err
	case "f64":
		v, err := r.ReadF64()
		return fmt.Sprintf("f64bits:%x", math.Float64bits(v)), err
	case "str":
		v, err := r.ReadString()
		keepString(v, err)
		return fmt.Sprintf("%q", v), err
	case "lstr":
		v, err := r.ReadLimitString(it.Limit)
		keepString(v, err)
		return fmt.Sprintf("%q", v), err
	case "raw":
		var v []byte
		var err error
		if it.Limit%2 == 1 {
			// the no-copy variant: the returned slice is kept and checked again after all later reads
			v, err = r.ZReadN(len(it.S))
			if err == nil {
				kept = append(kept, keptSlice{v, string(v), it.Kind})
			}
		} else {
			v, err = r.ReadN(len(it.S))
		}
		if err != nil {
			return "", err
		}
		return fmt.Sprintf("%q", string(v)), nil
	}
	panic("kind " + it.Kind)
}

type keptSlice struct {
	b    []byte
	was  string
	kind string
}

// kept holds the raw-bytes results handed out during the current scenario (the harness is sequential).
var kept []keptSlice

// keptStrings holds every string a reader returned together with a private copy of its contents: a returned string is a
// value; it must still read the same after the buffer it was decoded from has been reset, refilled or scribbled over.
type keptString struct{ v, was string }

var keptStrings []keptString

func keepString(v string, err error) {
	if err == nil && len(v) > 0 {
		keptStrings = append(keptStrings, keptString{v, strings.Clone(v)})
	}
}

func checkKept() (string, bool) {
	for i, k := range kept {
		if string(k.b) != k.was {
			return fmt.Sprintf("raw read %d returned %q; after later reads the same slice holds %q", i, k.was, string(k.b)), false
		}
	}
	return "", true
}

func checkKeptStrings() (string, bool) {
	for i, k := range keptStrings {
		if k.v != k.was {
			return fmt.Sprintf("string read %d returned %q; after the buffer was reused the same string value reads %q", i, k.was, k.v), false
		}
	}
	return "", true
}

func runC10(t *testing.T, sci interface{}, keepLog bool) (o *hx.Outcome) {
	sc := sci.(*C10Scenario)
	o = &hx.Outcome{Counts: map[string]int{}}
	var log []string
	fail := func(class, f string, a ...interface{}) {
		if o.Class == "" {
			o.Class, o.Msg = class, fmt.Sprintf(f, a...)
			log = append(log, "VIOLATION "+class+": "+o.Msg)
		}
	}
	kept, keptStrings = nil, nil
	defer func() {
		if r := recover(); r != nil {
			fail("panic", "decoder panicked: %v", r)
		}
		if msg, ok := checkKept(); !ok {
			fail("raw-result-overwritten-later", "%s", msg)
		}
		if msg, ok := checkKeptStrings(); !ok {
			fail("string-changed-after-buffer-reuse", "%s", msg)
		}
		kept, keptStrings = nil, nil
		o.LogHash = hashLines(log)
		if keepLog {
			o.Log = log
		}
		o.Steps = len(log)
		o.Nontrivial = len(sc.Items) >= 2
		o.Counts["class-"+sc.Class]++
	}()

	switch sc.Class {
	case "roundtrip", "stream":
		w := bytex.NewBufferX()
		if sc.WSize >= 0 {
			w = bytex.NewSizedBufferX(sc.WSize)
		}
		var written []item
		if sc.ResetPrelude {
			// junk, then Reset, before the writes proper. (Reset is not part of the property's statement: nothing is judged
			// here; if it left bytes behind, the typed reads below would return them instead of the written values.)
			w.WriteString("junk that must not survive")
			w.WriteU64(0xdeadbeef)
			w.Reset()
			o.Counts["reset-before-writes"]++
		}
		for _, it := range sc.Items {
			err := write(w, it)
			if it.Kind == "lstr" && uint32(len(it.S)) > it.Limit {
				if err != bytex.ErrSizeLimit {
					fail("limit-not-enforced", "WriteLimitString(limit %d, %d bytes) returned %v", it.Limit, len(it.S), err)
				}
				continue // nothing written
			}
			if err != nil {
				fail("write-error", "write %s: %v", it.Kind, err)
				return
			}
			written = append(written, it)
		}
		data := append([]byte{}, w.Bytes()...)
		log = append(log, fmt.Sprintf("wrote %d items, %d bytes", len(written), len(data)))
		if sc.Class == "roundtrip" {
			// in-place rewrite touches exactly the addressed bytes
			if sc.RwPos >= 0 {
				want := append([]byte{}, data...)
				if sc.RwU32 {
					if sc.RwPos+4 <= len(data) {
						w.ReWriteU32(sc.RwPos, sc.RwU32Val)
						want[sc.RwPos], want[sc.RwPos+1], want[sc.RwPos+2], want[sc.RwPos+3] = byte(sc.RwU32Val), byte(sc.RwU32Val>>8), byte(sc.RwU32Val>>16), byte(sc.RwU32Val>>24)
						o.Counts["rewrite"]++
					}
				} else if sc.RwPos+len(sc.RwBytes) <= len(data) {
					w.ReWrite(sc.RwPos, sc.RwBytes)
					copy(want[sc.RwPos:], sc.RwBytes)
					o.Counts["rewrite"]++
				}
				if string(w.Bytes()) != string(want) {
					fail("rewrite-touched-other-bytes", "ReWrite at %d changed the buffer to %x, expected %x", sc.RwPos, w.Bytes(), want)
					return
				}
				return // the rewritten buffer no longer decodes to the written values
			}
			b := bytex.NewReadableBufferX(data)
			for i, it := range written {
				if it.Kind == "raw" && it.S == "" {
					// ReadN(0) is refused by both readers by design (they only have to agree on that: stream class);
					// an empty raw field is read back with the no-copy variant
					it.Limit |= 1
				}
				got, err := read(b, b, nil, it)
				log = append(log, fmt.Sprintf("buffer read %s -> %s %v", it.Kind, got, err))
				if err != nil || got != expected(it) {
					fail("roundtrip-mismatch", "item %d (%s): wrote %s, buffer reader returned %s (err %v)", i, it.Kind, expected(it), got, err)
					return
				}
			}
			if b.Len() != 0 {
				fail("buffer-not-empty", "%d bytes left after reading everything back", b.Len())
			}
			// the caller reuses the buffer and its own input slice: strings handed out before must not change (checked on exit);
			// the no-copy raw results are allowed to alias the input, so they are judged before the reuse
			if msg, ok := checkKept(); !ok {
				fail("raw-result-overwritten-later", "%s", msg)
			}
			kept = nil
			b.Reset()
			for i := 0; i < len(data); i++ {
				b.WriteU8(0x5a)
			}
			for i := range data {
				data[i] ^= 0xa5
			}
			o.Counts["buffer-reused-after-reads"]++
			return
		}
		// stream: reference = buffer reader over what the faulty source will deliver; subject = stream reader over the faulty source
		avail := len(data)
		if sc.Plan.TruncAt >= 0 && sc.Plan.TruncAt < avail {
			avail = sc.Plan.TruncAt
			o.Counts["truncated"]++
		}
		if sc.Plan.FailAt >= 0 && sc.Plan.FailAt < avail {
			avail = sc.Plan.FailAt
			o.Counts["read-error-planned"]++
		}
		ref := bytex.NewReadableBufferX(append([]byte{}, data[:avail]...))
		src, fr := mkSource(sc.Source, data, sc.Plan)
		rx := bytex.NewReaderX(src)
		o.Counts["source-"+sc.Source]++
		for i, it := range written {
			want, werr := read(ref, ref, nil, it)
			got, gerr := read(rx, nil, rx, it)
			log = append(log, fmt.Sprintf("item %d %s: buffer -> %s %v | stream -> %s %v", i, it.Kind, want, werr, got, gerr))
			if werr == nil && gerr != nil {
				fail("stream-reader-fails-on-fragmented-source", "item %d (%s): the buffer reader decodes %s from the same bytes, the stream reader returned %v (chunks %v, zero-reads every %d, eof-with-data %v)", i, it.Kind, want, gerr, sc.Plan.Chunks, sc.Plan.ZeroEvery, sc.Plan.EOFWithData)
				return
			}
			if werr != nil && gerr == nil {
				fail("stream-reader-invents-value", "item %d (%s): only %d bytes exist, the buffer reader reports %v, the stream reader returned %s", i, it.Kind, avail, werr, got)
				return
			}
			if werr != nil {
				o.Counts["both-error"]++
				break
			}
			if got != want || want != expected(it) {
				fail("stream-buffer-disagree", "item %d (%s): wrote %s, buffer reader %s, stream reader %s", i, it.Kind, expected(it), want, got)
				return
			}
		}
		if fr != nil {
			for k, v := range fr.Fired {
				o.Counts[k] += v
			}
		}
	default:
		ref := bytex.NewReadableBufferX(append([]byte{}, sc.Raw...))
		src, fr := mkSource(sc.Source, sc.Raw, sc.Plan)
		rx := bytex.NewReaderX(src)
		o.Counts["source-"+sc.Source]++
		for i, it := range sc.Items {
			want, werr := read(ref, ref, nil, it)
			got, gerr := read(rx, nil, rx, it)
			log = append(log, fmt.Sprintf("item %d %s: buffer -> %s %v | stream -> %s %v", i, it.Kind, want, werr, got, gerr))
			if (werr == nil) != (gerr == nil) {
				fail("stream-buffer-disagree-on-arbitrary-bytes", "read %d (%s) of %x: buffer reader -> %s %v, stream reader -> %s %v", i, it.Kind, sc.Raw, want, werr, got, gerr)
				return
			}
			if werr != nil {
				o.Counts["both-error"]++
				break
			}
			if got != want {
				fail("stream-buffer-disagree-on-arbitrary-bytes", "read %d (%s) of %x: buffer reader %s, stream reader %s", i, it.Kind, sc.Raw, want, got)
				return
			}
		}
		if fr != nil {
			for k, v := range fr.Fired {
				o.Counts[k] += v
			}
		}
	}
	return o
}

func hashLines(l []string) string {
	var h uint64 = 14695981039346656037
	for _, s := range l {
		for i := 0; i < len(s); i++ {
			h ^= uint64(s[i])
			h *= 1099511628211
		}
		h ^= 0xff
		h *= 1099511628211
	}
	return fmt.Sprintf("%x", h)
}

func TestC10(t *testing.T) {
	hx.Main(t, hx.Prop{
		ID:          "C10",
		Draw:        drawC10,
		NewScenario: func() interface{} { return &C10Scenario{} },
		Run:         runC10,
		Real:        []string{"bytex.BufferX, bytex.ReaderX (unmodified)", "encoding/binary, bytes.Buffer"},
		Stubs:       []string{"io.Reader (FaultyReader: fragmentation to any chunking, (0,nil) reads, data together with io.EOF, truncation, error after k bytes)"},
		Rule: "three classes drawn by rapid: roundtrip = up to 20 typed writes (all 16 kinds incl. varints, NaN payloads, empty / limit-exceeding strings) read back through the buffer reader, or an in-place rewrite compared byte for byte; " +
			"stream = up to 16 writes decoded by the buffer reader (reference) and by the stream reader over a faulty source; arbitrary = random bytes decoded by both with small string limits; non-trivial = >=2 items; distinct = distinct hash of the decode log",
		Probes: []string{"class-roundtrip", "class-stream", "class-arbitrary", "rewrite", "truncated", "read-error-planned", "both-error", "fragment", "zero-read", "eof-with-data", "read-error", "read-error-with-data", "source-bytes.Buffer", "source-bufio", "source-dataerr"},
		Assumptions: []string{"a truncated or failing source is compared as: reads wholly before the cut agree, the straddling read fails in both; error values themselves are not compared",
			"arbitrary-byte decoding uses limit strings (<= 64) and fixed-size raw reads so that a random length prefix cannot demand gigabytes"},
	})
}
