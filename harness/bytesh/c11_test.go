package bytesh

import (
	"bytes"
	"fmt"
	"io"
	"math"
	"runtime"
	"strings"
	"testing"

	"github.com/pinealctx/neptune/tex"
	"pgregory.net/rapid"
	"verif.local/harness/hx"
	"verif.local/simrt"
)

// C11: tex.Buffer is observationally identical to bytes.Buffer (of the toolchain that builds the
// check), also when ReadFrom / WriteTo are handed misbehaving readers and writers.

type bOp struct {
	Op    string    `json:"op"`
	Data  []byte    `json:"data,omitempty"`
	N     int       `json:"n"`
	Rune  int32     `json:"rune"`
	Big   int       `json:"big,omitempty"` // write / writestring: the payload is this many pattern bytes (large-buffer class)
	Plan  FaultPlan `json:"plan"`
	Short int       `json:"short"` // WriteTo: short write at this many bytes (-1 none)
	Fail  int       `json:"fail"`  // WriteTo: error at this many bytes (-1 none)
	Neg   bool      `json:"neg"`   // ReadFrom: the reader returns a negative count
	Over  bool      `json:"over"`  // WriteTo: the writer claims more bytes than it was given
}

type C11Scenario struct {
	Init     string `json:"init"` // zero | bytes | string | sized
	InitData []byte `json:"init_data,omitempty"`
	InitSize int    `json:"init_size"`
	Ops      []bOp  `json:"ops"`
	// Conc: further operation lists, each run by its own task on its own pair of buffers, concurrently with Ops
	// (independent buffers must not influence each other through package-level state)
	Conc  [][]bOp     `json:"conc,omitempty"`
	Knobs hx.SimKnobs `json:"knobs"`
}

var bufOps = []string{"write", "write", "writestring", "writebyte", "writerune", "read", "read", "readbyte", "readrune", "unreadbyte", "unreadrune",
	"next", "truncate", "reset", "grow", "readfrom", "writeto", "len", "bytes", "string", "rewrite"}

func drawOps(rt *rapid.T, n int, choices []string) []bOp {
	var ops []bOp
	prev := ""
	for i := 0; i < n; i++ {
		op := bOp{Op: rapid.SampledFrom(choices).Draw(rt, "op"), Short: -1, Fail: -1}
		// the property excludes UnreadByte/UnreadRune issued directly after Grow
		if prev == "grow" && (op.Op == "unreadbyte" || op.Op == "unreadrune") {
			op.Op = "len"
		}
		switch op.Op {
		case "write", "writestring", "rewrite":
			switch rapid.IntRange(0, 4).Draw(rt, "size") {
			case 0:
				op.Data = nil
			case 1:
				op.Data = rapid.SliceOfN(rapid.Byte(), 1, 8).Draw(rt, "small")
			case 2:
				op.Data = rapid.SliceOfN(rapid.Byte(), 50, 70).Draw(rt, "medium") // crosses the 64-byte small-buffer path
			case 3:
				op.Data = []byte("h\u00e9llo \u2713 \xff\xfe w\u00f6rld")
			default:
				op.Data = bytes.Repeat([]byte{byte(i)}, rapid.SampledFrom([]int{63, 64, 65, 300, 1200}).Draw(rt, "big"))
			}
			op.N = rapid.IntRange(0, 80).Draw(rt, "pos")
		case "writebyte":
			op.N = rapid.IntRange(0, 255).Draw(rt, "byte")
		case "writerune":
			op.Rune = rapid.SampledFrom([]int32{'a', 0x7f, 0x80, 0xe9, 0x2713, 0x1f600, 0xd800, 0xdfff, 0x10ffff, 0x110000, -1, -200, 0x7fffffff, -0x80000000}).Draw(rt, "rune")
		case "read", "next", "truncate", "grow":
			op.N = rapid.SampledFrom([]int{0, 1, 2, 3, 7, 64, 65, 500, -1}).Draw(rt, "n")
			if op.Op == "read" && op.N < 0 {
				op.N = 5
			}
			if op.Op == "grow" && rapid.IntRange(0, 7).Draw(rt, "hugegrow") == 0 {
				// impossible sizes: both buffers must panic with ErrTooLarge and stay as they were (sizes of 2^50 and more
				// are refused by the allocator without touching memory)
				op.N = rapid.SampledFrom([]int{math.MaxInt, math.MaxInt - 1, math.MaxInt - 64, math.MaxInt/2 + 1, 1 << 62, 1 << 50}).Draw(rt, "huge")
			}
		case "readfrom":
			op.Data = rapid.SliceOfN(rapid.Byte(), 0, 1500).Draw(rt, "src")
			if rapid.IntRange(0, 2).Draw(rt, "bigsrc") == 0 {
				op.Data = bytes.Repeat([]byte("0123456789"), rapid.IntRange(0, 200).Draw(rt, "rep"))
			}
			op.Plan = drawPlan(rt, len(op.Data))
			op.Plan.TruncAt = -1
			if op.Plan.FailAt > len(op.Data) {
				op.Plan.FailAt = len(op.Data)
			}
			op.Neg = rapid.IntRange(0, 15).Draw(rt, "neg") == 0
		case "writeto":
			switch rapid.IntRange(0, 5).Draw(rt, "wfault") {
			case 0:
				op.Short = rapid.IntRange(0, 100).Draw(rt, "short")
			case 1:
				op.Fail = rapid.IntRange(0, 100).Draw(rt, "fail")
			case 2:
				op.Over = rapid.IntRange(0, 3).Draw(rt, "over") == 0
			}
		}
		ops = append(ops, op)
		prev = op.Op
	}
	return ops
}

func drawC11(rt *rapid.T) interface{} {
	sc := &C11Scenario{}
	sc.Init = rapid.SampledFrom([]string{"zero", "zero", "bytes", "string", "sized"}).Draw(rt, "init")
	sc.InitData = rapid.SliceOfN(rapid.Byte(), 0, 70).Draw(rt, "initdata")
	sc.InitSize = rapid.SampledFrom([]int{0, 1, 16, 64, 100, 1000}).Draw(rt, "initsize")
	if rapid.IntRange(0, 5).Draw(rt, "concurrent") == 0 {
		// independent buffers used by concurrent tasks: short lists, rich in the operations that go through helpers
		light := []string{"write", "writestring", "writebyte", "writerune", "writerune", "writerune", "read", "readbyte", "readrune", "unreadrune", "next", "grow", "string", "readfrom"}
		sc.Ops = drawOps(rt, rapid.IntRange(1, 10).Draw(rt, "nops0"), light)
		for k := rapid.IntRange(1, 2).Draw(rt, "nothers"); k > 0; k-- {
			sc.Conc = append(sc.Conc, drawOps(rt, rapid.IntRange(1, 10).Draw(rt, "nopsk"), light))
		}
		sc.Knobs = hx.DrawKnobs(rt, []int{1000, 300, 100})
		return sc
	}
	sc.Ops = drawOps(rt, rapid.IntRange(1, hx.Pick(40, 120)).Draw(rt, "nops"), bufOps)
	if hx.Rare(rt, hx.Pick(400, 100), "large") {
		// large-buffer class: capacity of a megabyte and more, appends of a quarter to a whole of it on a non-empty buffer
		sizes := []int{1 << 18, 300000, 1 << 19, 1<<20 - 1, 1 << 20, 1<<20 + 1, 3 << 19}
		var ops []bOp
		first := bOp{Op: "write", Big: rapid.SampledFrom([]int{1 << 20, 1<<20 + 1, 1 << 21}).Draw(rt, "lfirst"), Short: -1, Fail: -1}
		if rapid.Bool().Draw(rt, "lgrow") {
			first = bOp{Op: "grow", N: first.Big, Short: -1, Fail: -1}
		}
		ops = append(ops, first)
		for k := rapid.IntRange(1, 6).Draw(rt, "lops"); k > 0; k-- {
			op := bOp{Op: rapid.SampledFrom([]string{"write", "write", "writestring", "grow", "next", "readbyte", "writebyte", "truncate", "len"}).Draw(rt, "lop"), Short: -1, Fail: -1}
			switch op.Op {
			case "write", "writestring":
				op.Big = rapid.SampledFrom(sizes).Draw(rt, "lsize")
			case "grow", "truncate":
				op.N = rapid.SampledFrom(sizes).Draw(rt, "ln")
			case "next":
				op.N = rapid.SampledFrom([]int{1, 1000, 1 << 18}).Draw(rt, "lnext")
			}
			ops = append(ops, op)
		}
		if len(sc.Ops) > 6 {
			sc.Ops = sc.Ops[:6]
		}
		sc.Ops = append(ops, sc.Ops...)
	}
	return sc
}

var bigBytes []byte

// bigPattern: n bytes of a fixed non-periodic-looking pattern (shared, never modified)
func bigPattern(n int) []byte {
	if len(bigBytes) < n {
		bigBytes = make([]byte, n)
		for i := range bigBytes {
			bigBytes[i] = byte(i*7 + i>>8)
		}
	}
	return bigBytes[:n]
}

type negReader struct{}

func (negReader) Read(p []byte) (int, error) { return -1, nil }

type overWriter struct{}

func (overWriter) Write(p []byte) (int, error) { return len(p) + 1, nil }

// the common face of the two buffers
type bufFace interface {
	Write(p []byte) (int, error)
	WriteString(s string) (int, error)
	WriteByte(c byte) error
	WriteRune(r rune) (int, error)
	Read(p []byte) (int, error)
	ReadByte() (byte, error)
	ReadRune() (rune, int, error)
	UnreadByte() error
	UnreadRune() error
	Next(n int) []byte
	Truncate(n int)
	Reset()
	Grow(n int)
	ReadFrom(r io.Reader) (int64, error)
	WriteTo(w io.Writer) (int64, error)
	Len() int
	Bytes() []byte
	String() string
}

// apply runs one operation and renders everything observable about it (results, error, panic).
func apply(b bufFace, op bOp, consumed *[]byte, fired map[string]int) (res string) {
	defer func() {
		if r := recover(); r != nil {
			if _, isRT := r.(runtime.Error); isRT {
				// out-of-range arguments: both must panic; the runtime's wording depends on how the slice expression was compiled
				res = "panic: runtime error"
				return
			}
			res = fmt.Sprintf("panic: %v", r)
		}
	}()
	if op.Big > 0 {
		fired["large-append"]++
		op.Data = bigPattern(op.Big)
	}
	switch op.Op {
	case "write":
		n, err := b.Write(op.Data)
		return fmt.Sprint(n, err)
	case "writestring":
		n, err := b.WriteString(string(op.Data))
		return fmt.Sprint(n, err)
	case "writebyte":
		return fmt.Sprint(b.WriteByte(byte(op.N)))
	case "writerune":
		n, err := b.WriteRune(rune(op.Rune))
		return fmt.Sprint(n, err)
	case "read":
		p := make([]byte, op.N)
		n, err := b.Read(p)
		return fmt.Sprintf("%d %v %x", n, err, p[:n])
	case "readbyte":
		c, err := b.ReadByte()
		return fmt.Sprint(c, err)
	case "readrune":
		r, sz, err := b.ReadRune()
		return fmt.Sprint(r, sz, err)
	case "unreadbyte":
		return fmt.Sprint(b.UnreadByte())
	case "unreadrune":
		return fmt.Sprint(b.UnreadRune())
	case "next":
		return fmt.Sprintf("%x", b.Next(op.N))
	case "truncate":
		b.Truncate(op.N)
		return "ok"
	case "reset":
		b.Reset()
		return "ok"
	case "grow":
		b.Grow(op.N)
		return "ok"
	case "readfrom":
		var r io.Reader
		if op.Neg {
			r = negReader{}
		} else {
			fr := NewFaultyReader(op.Data, op.Plan)
			defer func() {
				for k, v := range fr.Fired {
					fired[k] += v
				}
			}()
			r = fr
		}
		n, err := b.ReadFrom(r)
		return fmt.Sprint(n, err)
	case "writeto":
		if op.Over {
			n, err := b.WriteTo(overWriter{})
			return fmt.Sprint(n, err)
		}
		w := &FaultyWriter{ShortAt: op.Short, FailAt: op.Fail}
		n, err := b.WriteTo(w)
		*consumed = w.Got
		for k, v := range w.Fired {
			fired[k] += v
		}
		return fmt.Sprintf("%d %v", n, err)
	case "len":
		return fmt.Sprint(b.Len())
	case "bytes":
		return fmt.Sprintf("%x", b.Bytes())
	case "string":
		return b.String()
	}
	return "?"
}

func runC11(t *testing.T, sci interface{}, keepLog bool) *hx.Outcome {
	sc := sci.(*C11Scenario)
	if len(sc.Conc) > 0 {
		return runC11Conc(t, sc, keepLog)
	}
	o := &hx.Outcome{Counts: map[string]int{}}
	log := c11Seq(sc, sc.Ops, o, nil)
	if o.Class != "" {
		log = append(log, "VIOLATION "+o.Class+": "+o.Msg)
	}
	o.LogHash = hashLines(log)
	if keepLog {
		o.Log = log
	}
	o.Steps = len(log)
	o.Nontrivial = len(sc.Ops) >= 3
	return o
}

// runC11Conc: every operation list runs as its own task on its own pair of buffers inside the simulation (the tex
// package is simgen-transformed, so tasks interleave inside its methods).
func runC11Conc(t *testing.T, sc *C11Scenario, keepLog bool) *hx.Outcome {
	lists := append([][]bOp{sc.Ops}, sc.Conc...)
	outs := make([]*hx.Outcome, len(lists))
	main := func(s *simrt.Sim) {
		var ts []*simrt.Task
		for li, ops := range lists {
			li, ops := li, ops
			outs[li] = &hx.Outcome{Counts: map[string]int{}}
			ts = append(ts, simrt.GoNamed(fmt.Sprintf("buffer%d", li), func() {
				for _, l := range c11Seq(sc, ops, outs[li], simrt.Yield) {
					s.Logf("b%d %s", li, l)
				}
				if outs[li].Class != "" {
					s.Fail("differs-from-bytes-buffer-under-concurrency", "buffer %d, used by one task only while other tasks use other buffers: %s", li, outs[li].Msg)
				}
			}))
		}
		hx.WaitDone(s, ts...)
	}
	res := hx.RunSim(t, sc.Knobs.Config(keepLog, 200000), nil, main)
	o := hx.FromResult(res)
	if o.Counts == nil {
		o.Counts = map[string]int{}
	}
	o.Counts["independent-buffers-concurrently"]++
	return o
}

// c11Seq runs one operation list on a fresh pair of buffers; between operations it calls yield (if any).
func c11Seq(sc *C11Scenario, opsList []bOp, o *hx.Outcome, yield func()) []string {
	var log []string
	var tb *tex.Buffer
	var sb *bytes.Buffer
	switch sc.Init {
	case "bytes":
		tb, sb = tex.NewBuffer(append([]byte{}, sc.InitData...)), bytes.NewBuffer(append([]byte{}, sc.InitData...))
	case "string":
		tb, sb = tex.NewBufferString(string(sc.InitData)), bytes.NewBufferString(string(sc.InitData))
	case "sized":
		tb, sb = tex.NewSizedBuffer(sc.InitSize), &bytes.Buffer{}
		if tb.Len() != 0 || tb.Cap() < sc.InitSize {
			o.Class, o.Msg = "sized-buffer-wrong", fmt.Sprintf("NewSizedBuffer(%d): Len %d Cap %d", sc.InitSize, tb.Len(), tb.Cap())
		}
	default:
		tb, sb = &tex.Buffer{}, &bytes.Buffer{}
	}
	var heldStrings []keptString
	afterGrow := false
	readSinceReset := sc.Init == "bytes" || sc.Init == "string" // ReWrite is specified on the written, unread region only
	for i, op := range opsList {
		if o.Class != "" {
			break
		}
		if yield != nil {
			yield()
		}
		if op.Op == "rewrite" {
			// ReWrite has no bytes.Buffer counterpart: one-line specification, checked when nothing was read since the last reset
			if readSinceReset || op.N+len(op.Data) > tb.Len() {
				continue
			}
			want := append([]byte{}, tb.Bytes()...)
			copy(want[op.N:], op.Data)
			tb.ReWrite(op.N, op.Data)
			// mirror on the reference
			ref := append([]byte{}, want...)
			sb.Reset()
			sb.Write(ref)
			log = append(log, fmt.Sprintf("%d rewrite pos=%d len=%d", i, op.N, len(op.Data)))
			o.Counts["rewrite"]++
			if !bytes.Equal(tb.Bytes(), want) {
				o.Class, o.Msg = "rewrite-wrong-bytes", fmt.Sprintf("ReWrite(%d, %x) left %x, expected %x", op.N, op.Data, tb.Bytes(), want)
			}
			continue
		}
		switch op.Op {
		case "read", "readbyte", "readrune", "next", "writeto", "unreadbyte", "unreadrune":
			readSinceReset = true
		case "reset":
			readSinceReset = false
		case "truncate":
			if op.N == 0 {
				readSinceReset = false
			}
		}
		// the property excludes UnreadByte/UnreadRune whose outcome depends on what Grow did to the read state:
		// skip them until an operation that sets the read state again
		switch op.Op {
		case "grow":
			afterGrow = true
		case "unreadbyte", "unreadrune":
			if afterGrow {
				o.Counts["unread-after-grow-skipped"]++
				continue
			}
		case "len", "bytes", "string":
		default:
			afterGrow = false
		}
		var tc, sc2 []byte
		tr := apply(tb, op, &tc, o.Counts)
		sr := apply(sb, op, &sc2, map[string]int{})
		if op.Op == "string" && len(tr) > 0 {
			// a string is a value: it must read the same after whatever happens to the buffer later
			heldStrings = append(heldStrings, keptString{tr, strings.Clone(tr)})
		}
		line := fmt.Sprintf("%d %s n=%d len(data)=%d -> tex %q | bytes %q", i, op.Op, op.N, len(op.Data), trunc(tr), trunc(sr))
		log = append(log, line)
		if tr != sr {
			o.Class = "differs-from-bytes-buffer"
			o.Msg = fmt.Sprintf("step %d %s(n=%d, rune=%d, %d bytes): tex.Buffer -> %s, bytes.Buffer -> %s", i, op.Op, op.N, op.Rune, len(op.Data), trunc(tr), trunc(sr))
			break
		}
		if !bytes.Equal(tc, sc2) {
			o.Class = "differs-from-bytes-buffer"
			o.Msg = fmt.Sprintf("step %d WriteTo handed the writer %d bytes, bytes.Buffer handed it %d", i, len(tc), len(sc2))
			break
		}
		if tb.Len() != sb.Len() || !bytes.Equal(tb.Bytes(), sb.Bytes()) {
			o.Class = "differs-from-bytes-buffer"
			o.Msg = fmt.Sprintf("after step %d %s: unread contents differ: tex.Buffer holds %d bytes %s, bytes.Buffer %d bytes %s", i, op.Op, tb.Len(), trunc(fmt.Sprintf("%x", tb.Bytes())), sb.Len(), trunc(fmt.Sprintf("%x", sb.Bytes())))
			break
		}
		if len(tr) >= 6 && tr[:6] == "panic:" {
			o.Counts["panic-in-both"]++
			if strings.Contains(tr, "too large") {
				o.Counts["too-large-panic-in-both"]++
			}
		}
	}
	for _, k := range heldStrings {
		if k.v != k.was && o.Class == "" {
			o.Class = "string-changed-after-later-operations"
			o.Msg = fmt.Sprintf("String() returned %s; after later operations on the buffer the same string value reads %s", trunc(fmt.Sprintf("%q", k.was)), trunc(fmt.Sprintf("%q", k.v)))
		}
	}
	return log
}

func trunc(s string) string {
	if len(s) > 120 {
		return s[:120] + fmt.Sprintf("...(%d)", len(s))
	}
	return s
}

func TestC11(t *testing.T) {
	hx.Main(t, hx.Prop{
		ID:          "C11",
		Draw:        drawC11,
		NewScenario: func() interface{} { return &C11Scenario{} },
		Run:         runC11,
		Real:        []string{"tex.Buffer (unmodified)", "bytes.Buffer of go1.26.8 (the reference)"},
		Stubs:       []string{"io.Reader handed to ReadFrom (fragmenting, (0,nil) reads, data with EOF, error after k bytes, negative count)", "io.Writer handed to WriteTo (short write, error after k bytes, over-long count)"},
		Rule: "scenario = initial buffer (zero, NewBuffer, NewBufferString, NewSizedBuffer) x up to 40 operations over Write/WriteString/WriteByte/WriteRune (incl. negative, surrogate and out-of-range runes)/Read/ReadByte/ReadRune/UnreadByte/UnreadRune/Next/Truncate/Reset/Grow (incl. invalid and impossible sizes)/ReadFrom(faulty reader)/WriteTo(faulty writer)/Len/Bytes/String/ReWrite (about 1 in 400, thorough 1 in 100: a large-buffer prelude, capacity of 1-2 MiB and appends of 256 KiB-1.5 MiB); " +
			"both buffers run the same operation, results + errors + recovered panics + Len + Bytes compared after every step; non-trivial = >=3 ops; distinct = distinct hash of the step log",
		Probes: []string{"panic-in-both", "rewrite", "fragment", "zero-read", "eof-with-data", "read-error", "read-error-with-data", "short-write", "write-error", "unread-after-grow-skipped", "independent-buffers-concurrently", "too-large-panic-in-both", "large-append"},
		Assumptions: []string{"reference = bytes.Buffer of the toolchain building the check (go1.26.8)", "UnreadByte/UnreadRune directly after Grow and Cap() are not compared (the property's exclusion)",
			"ReWrite is checked against its one-line specification while nothing has been read since the last reset"},
	})
}
