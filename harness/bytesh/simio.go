// Package bytesh holds the sequential fault harnesses for C10 (bytex stream/buffer codec) and C11
// (tex.Buffer vs bytes.Buffer). There is no scheduler here: the injected faults are the behaviours
// of the io.Reader / io.Writer handed to the code (fragmentation, short and empty reads, data
// together with EOF, errors after k bytes, truncation, short writes).
package bytesh

import (
	"errors"
	"fmt"
	"io"
)

// FaultPlan describes how a simulated reader misbehaves (all legal io.Reader behaviour).
type FaultPlan struct {
	Chunks      []int `json:"chunks"`        // cyclic list of maximal chunk sizes per Read call (>=1); empty = everything at once
	ZeroEvery   int   `json:"zero_every"`    // every n-th call returns (0, nil) first; 0 = never
	EOFWithData bool  `json:"eof_with_data"` // the last bytes come together with io.EOF
	TruncAt     int   `json:"trunc_at"`      // -1 none; else the source ends after this many bytes
	FailAt      int   `json:"fail_at"`       // -1 none; else reads fail with an injected error once this many bytes were delivered
	ErrWithData bool  `json:"err_with_data"` // the failing Read call hands over the bytes before the failure point together with the error
}

var errInjectedIO = errors.New("simio: injected read failure")

// FaultyReader implements io.Reader over data according to a plan.
type FaultyReader struct {
	data  []byte
	pos   int
	plan  FaultPlan
	calls int
	Fired map[string]int
}

func NewFaultyReader(data []byte, plan FaultPlan) *FaultyReader {
	if plan.TruncAt >= 0 && plan.TruncAt < len(data) {
		data = data[:plan.TruncAt]
	}
	return &FaultyReader{data: data, plan: plan, Fired: map[string]int{}}
}

func (r *FaultyReader) Read(p []byte) (int, error) {
	r.calls++
	if len(p) == 0 {
		return 0, nil
	}
	if r.plan.ZeroEvery > 0 && r.calls%r.plan.ZeroEvery == 0 {
		r.Fired["zero-read"]++
		return 0, nil
	}
	if r.plan.FailAt >= 0 && r.pos >= r.plan.FailAt {
		r.Fired["read-error"]++
		return 0, errInjectedIO
	}
	rem := len(r.data) - r.pos
	if rem == 0 {
		r.Fired["eof"]++
		return 0, io.EOF
	}
	n := len(p)
	if len(r.plan.Chunks) > 0 {
		if c := r.plan.Chunks[(r.calls-1)%len(r.plan.Chunks)]; c >= 1 && c < n {
			n = c
			r.Fired["fragment"]++
		}
	}
	if n > rem {
		n = rem
	}
	failNow := false
	if r.plan.FailAt >= 0 && r.pos+n >= r.plan.FailAt {
		n = r.plan.FailAt - r.pos
		failNow = r.plan.ErrWithData
	}
	copy(p, r.data[r.pos:r.pos+n])
	r.pos += n
	if failNow {
		r.Fired["read-error-with-data"]++
		return n, errInjectedIO
	}
	if r.plan.EOFWithData && r.pos == len(r.data) {
		r.Fired["eof-with-data"]++
		return n, io.EOF
	}
	return n, nil
}

// FaultyWriter implements io.Writer: short writes and errors after k bytes.
type FaultyWriter struct {
	Got     []byte
	ShortAt int // -1 none; the call that crosses this many bytes writes only up to it and returns (n, nil): a short write
	FailAt  int // -1 none; once this many bytes were taken, writes fail
	Fired   map[string]int
}

func (w *FaultyWriter) Write(p []byte) (int, error) {
	if w.Fired == nil {
		w.Fired = map[string]int{}
	}
	if w.FailAt >= 0 && len(w.Got)+len(p) > w.FailAt {
		n := w.FailAt - len(w.Got)
		if n < 0 {
			n = 0
		}
		w.Got = append(w.Got, p[:n]...)
		w.Fired["write-error"]++
		return n, fmt.Errorf("simio: injected write failure")
	}
	if w.ShortAt >= 0 && len(w.Got) <= w.ShortAt && len(w.Got)+len(p) > w.ShortAt {
		n := w.ShortAt - len(w.Got)
		w.Got = append(w.Got, p[:n]...)
		w.Fired["short-write"]++
		return n, nil
	}
	w.Got = append(w.Got, p...)
	return len(p), nil
}
