// Package caches holds the harnesses for C04 (LRU caches) and C05 (TTL caches).
package caches

import (
	"fmt"
	"testing"
	"time"

	"github.com/anishathalye/porcupine"
	"github.com/pinealctx/neptune/cache"
	"github.com/pinealctx/neptune/cache/tiny"
	"github.com/pinealctx/neptune/remap"
	"pgregory.net/rapid"
	"verif.local/harness/hx"
	"verif.local/simrt"
)

// V is the cached value: unique id, declared size.
type V struct{ ID, Sz int }

func (v V) Size() int { return v.Sz }

type lruOp struct {
	Op  string `json:"op"` // set setabs setrem get peek exist del clear setcap stats keys items
	Key int    `json:"key"`
	ID  int    `json:"id"`
	Sz  int    `json:"sz"`
}

type C04Scenario struct {
	Knobs  hx.SimKnobs `json:"knobs"`
	Target string      `json:"target"` // lru tiny wide widex tinywide tinywidex
	Cap    int64       `json:"cap"`
	Prime  uint64      `json:"prime"`
	Tasks  [][]lruOp   `json:"tasks"`
	// Bulk > 0 (lru, tiny; one client): the cache first receives this many distinct keys of size 1; the client's operations then
	// shrink the capacity or store values that push out more than a thousand entries at once
	Bulk int `json:"bulk,omitempty"`
}

// ---- uniform face

type lruOut struct {
	ID      int
	Ok      bool
	Removed string // ids in eviction order
	List    string // keys or items, MRU first
	Stats   [4]int64
}

type lruFace interface {
	do(op lruOp) lruOut
}

func ids(vs []int) string { return fmt.Sprint(vs) }

type bigLRU struct{ c *cache.LRUCache }

func vid(v cache.Value, ok bool) (int, bool) {
	if !ok || v == nil {
		return 0, ok
	}
	return v.(V).ID, ok
}

func (b bigLRU) do(op lruOp) (o lruOut) {
	c := b.c
	switch op.Op {
	case "set":
		c.Set(op.Key, V{op.ID, op.Sz})
	case "setabs":
		c.SetIfAbsent(op.Key, V{op.ID, op.Sz})
	case "setrem":
		var r []int
		for _, v := range c.SetAndGetRemoved(op.Key, V{op.ID, op.Sz}) {
			r = append(r, v.(V).ID)
		}
		o.Removed = ids(r)
	case "get":
		o.ID, o.Ok = vid(c.Get(op.Key))
	case "peek":
		o.ID, o.Ok = vid(c.Peek(op.Key))
	case "exist":
		o.Ok = c.Exist(op.Key)
	case "del":
		o.Ok = c.Delete(op.Key)
	case "clear":
		c.Clear()
	case "setcap":
		c.SetCapacity(int64(op.Sz))
	case "stats":
		l, s, cp, e := c.Stats()
		o.Stats = [4]int64{l, s, cp, e}
	case "length":
		o.Stats[0] = c.Length()
	case "size":
		o.Stats[1] = c.Size()
	case "capacity":
		o.Stats[2] = c.Capacity()
	case "evictions":
		o.Stats[3] = c.Evictions()
	case "keys":
		var r []int
		for _, k := range c.Keys() {
			r = append(r, k.(int))
		}
		o.List = ids(r)
	case "items":
		var r []int
		for _, it := range c.Items() {
			r = append(r, it.Key.(int)*100000+it.Value.(V).ID)
		}
		o.List = ids(r)
	}
	return
}

type tinyLRU struct{ c *tiny.LRUCache }

func tid(v interface{}, ok bool) (int, bool) {
	if !ok || v == nil {
		return 0, ok
	}
	return v.(V).ID, ok
}

func (b tinyLRU) do(op lruOp) (o lruOut) {
	c := b.c
	switch op.Op {
	case "set":
		c.Set(op.Key, V{op.ID, op.Sz})
	case "setabs":
		c.SetIfAbsent(op.Key, V{op.ID, op.Sz})
	case "setrem":
		var r []int
		for _, v := range c.SetAndGetRemoved(op.Key, V{op.ID, op.Sz}) {
			r = append(r, v.(V).ID)
		}
		o.Removed = ids(r)
	case "get":
		o.ID, o.Ok = tid(c.Get(op.Key))
	case "peek":
		o.ID, o.Ok = tid(c.Peek(op.Key))
	case "exist":
		o.Ok = c.Exist(op.Key)
	case "del":
		o.Ok = c.Delete(op.Key)
	case "clear":
		c.Clear()
	case "setcap":
		c.SetCapacity(int64(op.Sz))
	case "stats":
		l, s, cp, e := c.Stats()
		o.Stats = [4]int64{l, s, cp, e}
	case "length":
		o.Stats[0] = c.Length()
	case "size":
		o.Stats[1] = c.Size()
	case "capacity":
		o.Stats[2] = c.Capacity()
	case "evictions":
		o.Stats[3] = c.Evictions()
	case "keys":
		var r []int
		for _, k := range c.Keys() {
			r = append(r, k.(int))
		}
		o.List = ids(r)
	case "items":
		var r []int
		for _, it := range c.Items() {
			r = append(r, it.Key.(int)*100000+it.Value.(V).ID)
		}
		o.List = ids(r)
	}
	return
}

type facadeLRU struct{ c cache.LRUFacade }

func (b facadeLRU) do(op lruOp) (o lruOut) {
	switch op.Op {
	case "set":
		b.c.Set(hx.KeyOf(op.Key), V{op.ID, op.Sz})
	case "get":
		o.ID, o.Ok = vid(b.c.Get(hx.KeyOf(op.Key)))
	case "peek":
		o.ID, o.Ok = vid(b.c.Peek(hx.KeyOf(op.Key)))
	case "exist":
		o.Ok = b.c.Exist(hx.KeyOf(op.Key))
	case "del":
		o.Ok = b.c.Delete(hx.KeyOf(op.Key))
	}
	return
}

type facadeTiny struct{ c tiny.LRU }

func (b facadeTiny) do(op lruOp) (o lruOut) {
	switch op.Op {
	case "set":
		b.c.Set(hx.KeyOf(op.Key), V{op.ID, op.Sz})
	case "get":
		o.ID, o.Ok = tid(b.c.Get(hx.KeyOf(op.Key)))
	case "peek":
		o.ID, o.Ok = tid(b.c.Peek(hx.KeyOf(op.Key)))
	case "exist":
		o.Ok = b.c.Exist(hx.KeyOf(op.Key))
	case "del":
		o.Ok = b.c.Delete(hx.KeyOf(op.Key))
	}
	return
}

// ---- the ideal LRU (reference model)

type mItem struct{ key, id, sz int }

type mLRU struct {
	items []mItem // MRU first
	cap   int64
	ev    int64
}

func (m mLRU) size() (s int64) {
	for _, it := range m.items {
		s += int64(it.sz)
	}
	return
}

func (m mLRU) find(k int) int {
	for i, it := range m.items {
		if it.key == k {
			return i
		}
	}
	return -1
}

func (m mLRU) clone() mLRU {
	n := m
	n.items = append([]mItem{}, m.items...)
	return n
}

func (m *mLRU) toFront(i int) {
	it := m.items[i]
	copy(m.items[1:i+1], m.items[0:i])
	m.items[0] = it
}

func (m *mLRU) evict() (removed []int) {
	for m.size() > m.cap && len(m.items) > 0 {
		last := m.items[len(m.items)-1]
		m.items = m.items[:len(m.items)-1]
		m.ev++
		removed = append(removed, last.id)
	}
	return
}

// apply runs op on a copy of the model and returns the expected output. tinyMode: every entry weighs 1.
func (m mLRU) apply(op lruOp, tinyMode bool) (mLRU, lruOut) {
	n := m.clone()
	var o lruOut
	sz := op.Sz
	if tinyMode {
		sz = 1
	}
	switch op.Op {
	case "set", "setrem", "setabs":
		i := n.find(op.Key)
		existed := i >= 0
		if existed {
			if op.Op != "setabs" {
				n.items[i].id, n.items[i].sz = op.ID, sz
			}
			n.toFront(i)
		} else {
			n.items = append([]mItem{{op.Key, op.ID, sz}}, n.items...)
		}
		var removed []int
		if !(existed && op.Op == "setabs") {
			removed = n.evict()
		}
		if op.Op == "setrem" {
			if tinyMode && existed {
				removed = nil
			}
			o.Removed = ids(removed)
		}
	case "get":
		if i := n.find(op.Key); i >= 0 {
			o.ID, o.Ok = n.items[i].id, true
			n.toFront(i)
		}
	case "peek":
		if i := n.find(op.Key); i >= 0 {
			o.ID, o.Ok = n.items[i].id, true
		}
	case "exist":
		o.Ok = n.find(op.Key) >= 0
	case "del":
		if i := n.find(op.Key); i >= 0 {
			o.Ok = true
			n.items = append(n.items[:i], n.items[i+1:]...)
		}
	case "clear":
		n.items = nil
	case "setcap":
		n.cap = int64(op.Sz)
		n.evict()
	case "stats":
		o.Stats = [4]int64{int64(len(n.items)), n.size(), n.cap, n.ev}
	case "length":
		o.Stats[0] = int64(len(n.items))
	case "size":
		o.Stats[1] = n.size()
	case "capacity":
		o.Stats[2] = n.cap
	case "evictions":
		o.Stats[3] = n.ev
	case "keys":
		var r []int
		for _, it := range n.items {
			r = append(r, it.key)
		}
		o.List = ids(r)
	case "items":
		var r []int
		for _, it := range n.items {
			r = append(r, it.key*100000+it.id)
		}
		o.List = ids(r)
	}
	return n, o
}

// mWide: one ideal LRU per shard.
type mWide struct{ shards []mLRU }

func lruEqual(a, b mLRU) bool {
	if a.cap != b.cap || a.ev != b.ev || len(a.items) != len(b.items) {
		return false
	}
	for i := range a.items {
		if a.items[i] != b.items[i] {
			return false
		}
	}
	return true
}

func c04Model(sc *C04Scenario, route func(k int) int, nshards int, perShard int64) porcupine.Model {
	tinyMode := sc.Target == "tiny" || sc.Target == "tinywide" || sc.Target == "tinywidex"
	return porcupine.Model{
		Init: func() interface{} {
			w := mWide{}
			for i := 0; i < nshards; i++ {
				w.shards = append(w.shards, mLRU{cap: perShard})
			}
			return w
		},
		Step: func(st, in, out interface{}) (bool, interface{}) {
			w := st.(mWide)
			op := in.(lruOp)
			si := route(op.Key)
			n, exp := w.shards[si].apply(op, tinyMode)
			if exp != out.(lruOut) {
				return false, st
			}
			nw := mWide{shards: append([]mLRU{}, w.shards...)}
			nw.shards[si] = n
			return true, nw
		},
		Equal: func(a, b interface{}) bool {
			x, y := a.(mWide), b.(mWide)
			for i := range x.shards {
				if !lruEqual(x.shards[i], y.shards[i]) {
					return false
				}
			}
			return true
		},
		DescribeOperation: func(in, out interface{}) string { return fmt.Sprintf("%+v -> %+v", in, out) },
	}
}

func drawC04(rt *rapid.T) interface{} {
	sc := &C04Scenario{}
	sc.Target = rapid.SampledFrom([]string{"lru", "lru", "tiny", "tiny", "wide", "widex", "tinywide", "tinywidex"}).Draw(rt, "target")
	wide := sc.Target != "lru" && sc.Target != "tiny"
	sc.Cap = rapid.SampledFrom([]int64{0, 1, 3, 8}).Draw(rt, "cap")
	sc.Prime = 1
	nkeys := 4
	if !wide && hx.Rare(rt, hx.Pick(1500, 300), "bulk") {
		sc.Bulk = rapid.SampledFrom([]int{1030, 1100, 1500, 2100}).Draw(rt, "bulkn")
		sc.Cap = int64(sc.Bulk + rapid.SampledFrom([]int{-5, 0, 0, 7}).Draw(rt, "bulkcap"))
		var ops []lruOp
		n := rapid.IntRange(1, 8).Draw(rt, "bulkops")
		for j := 0; j < n; j++ {
			op := lruOp{Op: rapid.SampledFrom([]string{"setcap", "setcap", "set", "setrem", "setabs", "get", "del", "stats", "length", "size", "evictions", "keys"}).Draw(rt, "bop")}
			op.Key = rapid.SampledFrom([]int{0, 1, 100, 101, 100 + sc.Bulk/2, 99 + sc.Bulk}).Draw(rt, "bkey")
			op.ID = sc.Bulk + 1 + j
			op.Sz = rapid.SampledFrom([]int{0, 1, 5, 9, 1025, 1030, sc.Bulk - 3, sc.Bulk, sc.Bulk + 20}).Draw(rt, "bsz")
			ops = append(ops, op)
		}
		sc.Tasks = [][]lruOp{ops}
		sc.Knobs = hx.DrawKnobs(rt, []int{10})
		return sc
	}
	if wide {
		sc.Prime = rapid.SampledFrom([]uint64{1, 2, 3, 7}).Draw(rt, "prime")
		sc.Cap = rapid.SampledFrom([]int64{0, 2, 5, 1000000}).Draw(rt, "wcap")
		nkeys = 6
	}
	var choices []string
	if wide {
		choices = []string{"set", "set", "set", "get", "get", "peek", "exist", "del"}
	} else {
		choices = []string{"set", "set", "set", "setabs", "setrem", "setrem", "get", "get", "peek", "exist", "del", "clear", "setcap", "stats", "keys", "items", "length", "size", "capacity", "evictions"}
	}
	nt := rapid.IntRange(1, 4).Draw(rt, "ntasks")
	maxOps := 7
	if nt == 1 {
		maxOps = hx.Pick(60, 150)
	}
	next := 1
	for i := 0; i < nt; i++ {
		n := rapid.IntRange(1, maxOps).Draw(rt, "nops")
		var ops []lruOp
		for j := 0; j < n; j++ {
			op := lruOp{Op: rapid.SampledFrom(choices).Draw(rt, "op")}
			op.Key = rapid.IntRange(0, nkeys-1).Draw(rt, "key")
			op.ID = next
			next++
			op.Sz = rapid.SampledFrom([]int{0, 1, 1, 2, 5, 9}).Draw(rt, "sz")
			ops = append(ops, op)
		}
		sc.Tasks = append(sc.Tasks, ops)
	}
	sc.Knobs = hx.DrawKnobs(rt, []int{1000, 300, 100})
	return sc
}

func runC04(t *testing.T, sci interface{}, keepLog bool) *hx.Outcome {
	sc := sci.(*C04Scenario)
	h := &hx.History{}
	// routing of the wide variants through the public router (remap), not through the cache
	rm := remap.NewReMap(remap.WithPrime(sc.Prime))
	route := func(k int) int { return 0 }
	nshards := 1
	perShard := sc.Cap
	switch sc.Target {
	case "wide", "tinywide":
		route = func(k int) int { return rm.SimpleIndex(hx.KeyOf(k)) }
		nshards = int(sc.Prime)
		perShard = sc.Cap/int64(sc.Prime) + 1 // documented per-shard capacity (assumption recorded in the evidence)
	case "widex", "tinywidex":
		route = func(k int) int { return rm.XHashIndex(hx.KeyOf(k)) }
		nshards = int(sc.Prime)
		perShard = sc.Cap/int64(sc.Prime) + 1
	}
	main := func(s *simrt.Sim) {
		var f lruFace
		switch sc.Target {
		case "lru":
			f = bigLRU{cache.NewLRUCache(sc.Cap)}
		case "tiny":
			f = tinyLRU{tiny.NewLRUCache(sc.Cap)}
		case "wide":
			f = facadeLRU{cache.NeWideLRUCache(sc.Cap, remap.WithPrime(sc.Prime))}
		case "widex":
			f = facadeLRU{cache.NewWideXHashLRUCache(sc.Cap, remap.WithPrime(sc.Prime))}
		case "tinywide":
			f = facadeTiny{tiny.NeWideLRU(sc.Cap, remap.WithPrime(sc.Prime))}
		case "tinywidex":
			f = facadeTiny{tiny.NewWideXHashLRU(sc.Cap, remap.WithPrime(sc.Prime))}
		}
		for k := 0; k < sc.Bulk; k++ {
			op := lruOp{Op: "set", Key: 100 + k, ID: k + 1, Sz: 1}
			call := h.Invoke()
			out := f.do(op)
			h.Return(len(sc.Tasks)+1, call, op, out)
		}
		if sc.Bulk > 0 {
			s.Count("cache-of-more-than-1024-entries")
		}
		var ts []*simrt.Task
		for ti, ops := range sc.Tasks {
			ti, ops := ti, ops
			ts = append(ts, simrt.GoNamed(fmt.Sprintf("client%d", ti), func() {
				me := simrt.Cur()
				for _, op := range ops {
					call := h.Invoke()
					me.EnterAPI(op.Op)
					out := f.do(op)
					me.ExitAPI()
					h.Return(ti, call, op, out)
					s.Logf("c%d %s k=%d id=%d sz=%d -> %+v", ti, op.Op, op.Key, op.ID, op.Sz, out)
					simrt.Yield()
				}
			}))
		}
		hx.WaitDone(s, ts...)
		// final observation by a single task: must be reachable by the same linearization
		if sc.Target == "lru" || sc.Target == "tiny" {
			for _, o := range []string{"keys", "items", "stats"} {
				op := lruOp{Op: o}
				call := h.Invoke()
				out := f.do(op)
				h.Return(len(sc.Tasks), call, op, out)
				s.Logf("final %s -> %+v", o, out)
			}
		} else {
			for k := 0; k < 6; k++ {
				op := lruOp{Op: "peek", Key: k}
				call := h.Invoke()
				out := f.do(op)
				h.Return(len(sc.Tasks), call, op, out)
				s.Logf("final peek %d -> %+v", k, out)
			}
		}
	}
	res := hx.RunSim(t, sc.Knobs.Config(keepLog, 60000+100*sc.Bulk), nil, main)
	o := hx.FromResult(res)
	if o.Class == "" && res.Stuck {
		o.Class, o.Msg = "stuck", "tasks never finished: "+hx.Unfinished(res)
	}
	if len(sc.Tasks) == 1 {
		o.Nontrivial = len(sc.Tasks[0]) >= 3
	}
	if o.Counts == nil {
		o.Counts = map[string]int{}
	}
	if o.Class == "" {
		switch hx.CheckLin(c04Model(sc, route, nshards, perShard), h, 20*time.Second) {
		case "illegal":
			o.Class = "not-an-ideal-lru"
			if len(sc.Tasks) == 1 {
				o.Class = "not-an-ideal-lru-sequential"
			}
			o.Msg = fmt.Sprintf("%s cap=%d shards=%d: the recorded results are not those of an ideal LRU in any order consistent with real time", sc.Target, sc.Cap, nshards)
		case "unknown":
			o.Counts["porcupine-unknown"]++
		default:
			o.Counts["porcupine-ok"]++
		}
	}
	return o
}

func TestC04(t *testing.T) {
	hx.Main(t, hx.Prop{
		ID:          "C04",
		Draw:        drawC04,
		NewScenario: func() interface{} { return &C04Scenario{} },
		Run:         runC04,
		Real:        []string{"cache.LRUCache, cache/tiny.LRUCache, cache.WideLRUCache, tiny.WideLRUCache (simgen-transformed)", "remap (router, also used by the model for shard choice)", "container/list", "porcupine v1.3.0"},
		Stubs:       []string{"sync (simsync.Mutex)", "goroutine scheduling (simrt)"},
		Rule: "scenario = cache type x capacity x (wide: shard count) x 1-4 client programs over Set/SetIfAbsent/SetAndGetRemoved/Get/Peek/Exist/Delete/Clear/SetCapacity/Stats/Keys/Items with sizes in {0,1,2,5,9} (1 client: up to 60 ops = sequential statement; about 1 in 1500 single-cache scenarios (1 in 300 in the thorough tier): 1030-2100 entries first, then capacity changes and values that push out more than 1024 entries in one call) x scheduler knobs/tape; " +
			"history + final Keys/Items/Stats checked with porcupine against an ideal LRU (one per shard for the wide variants); non-trivial = >=2 tasks and >=1 switch (or >=3 ops sequentially); distinct = distinct event-log hash",
		Probes:      []string{"porcupine-ok", "cache-of-more-than-1024-entries"},
		Assumptions: []string{"wide variants: per-shard capacity is capacity/shards+1 as documented (repeats a formula of the implementation)", "tiny: every entry weighs 1; its SetAndGetRemoved on an existing key reports nothing removed"},
	})
}
