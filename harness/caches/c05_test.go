package caches

import (
	"context"
	"fmt"
	"strings"
	"testing"
	"time"

	"github.com/anishathalye/porcupine"
	"github.com/pinealctx/neptune/cache"
	"pgregory.net/rapid"
	"verif.local/harness/hx"
	"verif.local/simrt"
	simsync "verif.local/simrt/simsync"
	simtime "verif.local/simrt/simtime"
)

// C05: TTL cache — never serves expired/removed data, one-shot reads, bounded, redis agreement.

type ttlOp struct {
	Op      string `json:"op"` // set get remove clear adv
	Key     int    `json:"key"`
	ID      int    `json:"id"`
	TTL     int64  `json:"ttl"`      // set: 0 = no WithTTL option; else WithTTL(ttl). get/updttl: argument of WithUpdateTTL
	MustNot bool   `json:"must_not"` // set
	Keep    bool   `json:"keep"`     // set
	Mode    string `json:"mode"`     // get: plain | rag | upd
	Adv     int64  `json:"adv"`      // adv: seconds
	Fail    int    `json:"fail"`     // redis mode: inject a failure into the n-th command of this op (0 = none)
}

type C05Scenario struct {
	Knobs    hx.SimKnobs `json:"knobs"`
	Mode     string      `json:"mode"` // seq | conc | redis
	Size     int         `json:"size"`
	DefTTL   int64       `json:"def_ttl"`
	Exact    bool        `json:"exact"` // clock readings may fall exactly on a deadline (seq only; both answers accepted there)
	NKeys    int         `json:"nkeys"`
	Tasks    [][]ttlOp   `json:"tasks"`
	BaseSec  int64       `json:"base_sec"`
	ScanPage int         `json:"scan_page,omitempty"` // redis modes: the fake server's SCAN hands out this many keys per call (0 = all at once)
}

const inf = int64(1) << 62

func key(k int) string  { return fmt.Sprintf("k%d", k) }
func val(id int) []byte { return []byte(fmt.Sprintf("v%d", id)) }

func drawC05(rt *rapid.T) interface{} {
	sc := &C05Scenario{}
	sc.Mode = rapid.SampledFrom([]string{"seq", "seq", "conc", "conc", "redis", "rconc", "cbound"}).Draw(rt, "mode")
	sc.NKeys = rapid.IntRange(1, 4).Draw(rt, "nkeys")
	sc.BaseSec = 1700000005
	sc.ScanPage = rapid.SampledFrom([]int{0, 1, 2, 3, 10}).Draw(rt, "scanpage")
	switch sc.Mode {
	case "seq":
		sc.Size = rapid.SampledFrom([]int{0, 1, 2, 5}).Draw(rt, "size")
		sc.DefTTL = rapid.SampledFrom([]int64{-1, 0, 3, 13}).Draw(rt, "defttl")
		sc.Exact = rapid.IntRange(0, 4).Draw(rt, "exact") == 0
	case "conc":
		sc.Size = 100
		sc.DefTTL = rapid.SampledFrom([]int64{-1, 0, 3, 13}).Draw(rt, "defttl")
	case "cbound":
		// concurrent callers on a small cache: no model of the eviction order, only the bound and "no invented values"
		sc.Size = rapid.SampledFrom([]int{1, 2, 3}).Draw(rt, "bsize")
		sc.DefTTL = rapid.SampledFrom([]int64{-1, 13}).Draw(rt, "defttl")
		sc.NKeys = rapid.IntRange(2, 5).Draw(rt, "bkeys")
	case "redis", "rconc":
		sc.Size = 100
		sc.DefTTL = rapid.SampledFrom([]int64{3, 13, 23}).Draw(rt, "defttl")
	}
	evictionPossible := sc.Size < sc.NKeys
	ttls := []int64{0, 0, 3, 13, 23}
	if sc.Mode == "seq" {
		ttls = []int64{0, 0, 3, 13, 23, -1}
	}
	if sc.Exact {
		ttls = []int64{0, 0, 1, 2, 5, 10, -1}
	}
	nt := 1
	maxOps := hx.Pick(40, 100)
	if sc.Mode == "conc" || sc.Mode == "rconc" || sc.Mode == "cbound" {
		nt = rapid.IntRange(2, 4).Draw(rt, "ntasks")
		maxOps = 6
	}
	next := 1
	for i := 0; i < nt; i++ {
		n := rapid.IntRange(1, maxOps).Draw(rt, "nops")
		var ops []ttlOp
		for j := 0; j < n; j++ {
			op := ttlOp{}
			op.Op = rapid.SampledFrom([]string{"set", "set", "set", "get", "get", "get", "remove", "clear", "adv", "adv"}).Draw(rt, "op")
			op.Key = rapid.IntRange(0, sc.NKeys-1).Draw(rt, "key")
			op.ID = next
			next++
			switch op.Op {
			case "set":
				op.TTL = rapid.SampledFrom(ttls).Draw(rt, "ttl")
				op.MustNot = rapid.IntRange(0, 3).Draw(rt, "mustnot") == 0
				op.Keep = rapid.IntRange(0, 3).Draw(rt, "keep") == 0
				if evictionPossible || sc.Exact {
					op.Keep = false // blind operation when the key may have been evicted / sits on its deadline
				}
			case "get":
				op.Mode = rapid.SampledFrom([]string{"plain", "plain", "rag", "upd"}).Draw(rt, "gmode")
				op.TTL = rapid.SampledFrom(ttls).Draw(rt, "uttl")
			case "adv":
				if sc.Exact {
					op.Adv = rapid.SampledFrom([]int64{0, 1, 1, 2, 3, 5, 10}).Draw(rt, "adv")
				} else {
					op.Adv = rapid.SampledFrom([]int64{0, 10, 10, 20, 100}).Draw(rt, "adv")
				}
			}
			if sc.Mode == "rconc" {
				// concurrent callers of the redis-backed cache: single-command operations only (update-ttl, keep-ttl and
				// Clear are multi-command or blind there and are compared sequentially in the redis class)
				op.Keep = false
				if op.Op == "clear" {
					op.Op = "remove"
				}
				if op.Mode == "upd" {
					op.Mode = "rag"
				}
			}
			if sc.Mode == "redis" && op.Op != "clear" && op.Op != "adv" && rapid.IntRange(0, 9).Draw(rt, "inj") == 0 {
				op.Fail = rapid.IntRange(1, 2).Draw(rt, "failn")
			}
			ops = append(ops, op)
		}
		sc.Tasks = append(sc.Tasks, ops)
	}
	sc.Knobs = hx.DrawKnobs(rt, []int{1000, 300, 100})
	return sc
}

// ---- reference model

type mEntry struct {
	id    int
	dl    int64
	touch int64
}

type ttlOut struct {
	ID   int    // value id on a hit
	Code string // ok | notfound | exists | err:<text>
}

func doTTL(c cache.TTLCache, op ttlOp) ttlOut {
	ctx := context.Background()
	switch op.Op {
	case "set":
		var fns []cache.SetOptFn
		if op.TTL != 0 {
			fns = append(fns, cache.WithTTL(op.TTL))
		}
		if op.MustNot {
			fns = append(fns, cache.WithMustNotExist())
		}
		if op.Keep {
			fns = append(fns, cache.WithKeepTTL())
		}
		err := c.Set(ctx, key(op.Key), val(op.ID), fns...)
		return ttlOut{Code: errCode(err)}
	case "get":
		var fns []cache.GetOptFn
		switch op.Mode {
		case "rag":
			fns = append(fns, cache.WithRemoveAfterGet())
		case "upd":
			fns = append(fns, cache.WithUpdateTTL(op.TTL))
		}
		v, err := c.Get(ctx, key(op.Key), fns...)
		if err != nil {
			return ttlOut{Code: errCode(err)}
		}
		var id int
		if _, e := fmt.Sscanf(string(v), "v%d", &id); e != nil {
			return ttlOut{Code: "garbage:" + string(v)}
		}
		return ttlOut{ID: id, Code: "ok"}
	case "remove":
		return ttlOut{Code: errCode(c.Remove(ctx, key(op.Key)))}
	case "clear":
		c.Clear(ctx)
		return ttlOut{Code: "ok"}
	}
	return ttlOut{Code: "ok"}
}

func errCode(err error) string {
	switch {
	case err == nil:
		return "ok"
	case err == cache.ErrTTLKeyNotFound:
		return "notfound"
	case err == cache.ErrTTLKeyExists:
		return "exists"
	case err == errInjected || strings.Contains(err.Error(), "injected"):
		return "injected"
	}
	return "err:" + err.Error()
}

func dlOf(now, ttl int64) int64 {
	if ttl <= 0 {
		return inf
	}
	return now + ttl
}

// ---- mode seq: sequential model-based check with the two-sided eviction bound

func runC05Seq(sc *C05Scenario, keepLog bool) *hx.Outcome {
	o := &hx.Outcome{Counts: map[string]int{}}
	var log []string
	now := sc.BaseSec
	simtime.Manual = func() time.Time { return time.Unix(now, 0) }
	simsync.SingleGoroutine = true
	defer func() { simtime.Manual, simsync.SingleGoroutine = nil, false }()
	c := cache.NewTTLMemCache(sc.Size, sc.DefTTL)
	m := map[int]*mEntry{}
	var touch int64
	lastTouch := map[int]int64{} // every key ever touched (set, or read successfully)
	fail := func(class, f string, a ...interface{}) {
		if o.Class == "" {
			o.Class, o.Msg = class, fmt.Sprintf(f, a...)
		}
	}
	// evictable: at least `size` other distinct keys were touched since k's last touch
	evictable := func(k int) bool {
		n := 0
		for ok, t := range lastTouch {
			if ok != k && t > m[k].touch {
				n++
			}
		}
		return n >= sc.Size
	}
	liveness := func(k int) (live bool, ambiguous bool) {
		e := m[k]
		if e == nil {
			return false, false
		}
		if now == e.dl {
			return true, true
		}
		return now < e.dl, false
	}
	step := func(op ttlOp) {
		out := doTTL(c, op)
		line := fmt.Sprintf("t=%d %+v -> %+v", now-sc.BaseSec, op, out)
		log = append(log, line)
		touchK := func(k int) { touch++; lastTouch[k] = touch; m[k].touch = touch }
		switch op.Op {
		case "adv":
			now += op.Adv
		case "remove":
			if out.Code != "ok" {
				fail("remove-failed", "Remove returned %s", out.Code)
			}
			delete(m, op.Key)
		case "clear":
			m = map[int]*mEntry{}
		case "set":
			ttl := sc.DefTTL
			if op.TTL != 0 {
				ttl = op.TTL
			}
			live, amb := liveness(op.Key)
			switch out.Code {
			case "exists":
				if !op.MustNot {
					fail("unexpected-exists", "Set without must-not-exist reported already-exists")
					return
				}
				if !live {
					fail("expired-key-treated-as-present", "Set(must-not-exist) on key %d reported already-exists although the key was never set, removed or its time-to-live has elapsed", op.Key)
					return
				}
				// key stays as it is
			case "ok":
				if op.MustNot && live && !amb {
					// the implementation saw no entry: legal only if the entry may have been evicted
					if !evictable(op.Key) {
						fail("must-not-exist-overwrote-live-key", "Set(must-not-exist) succeeded on live key %d that cannot have been evicted", op.Key)
						return
					}
					live = false
				}
				if op.MustNot && amb {
					live = false
				}
				if live && op.Keep {
					m[op.Key].id = op.ID
				} else if live {
					m[op.Key].id, m[op.Key].dl = op.ID, dlOf(now, ttl)
				} else {
					m[op.Key] = &mEntry{id: op.ID, dl: dlOf(now, ttl)}
				}
				touchK(op.Key)
			default:
				fail("set-error", "Set returned %s", out.Code)
			}
		case "get":
			live, amb := liveness(op.Key)
			switch out.Code {
			case "ok":
				if !live {
					fail("served-dead-key", "Get(%s) of key %d returned value v%d although the key is expired, removed, consumed or was never set", op.Mode, op.Key, out.ID)
					return
				}
				if out.ID != m[op.Key].id {
					fail("served-stale-value", "Get of key %d returned v%d, latest Set stored v%d", op.Key, out.ID, m[op.Key].id)
					return
				}
				if op.Mode == "rag" {
					delete(m, op.Key)
					o.Counts["rag-hit"]++
				} else {
					if op.Mode == "upd" {
						ttl := sc.DefTTL
						if op.TTL != 0 {
							ttl = op.TTL
						}
						m[op.Key].dl = dlOf(now, ttl)
					}
					touchK(op.Key)
				}
			case "notfound":
				if live && !amb {
					if !evictable(op.Key) {
						fail("live-key-missing", "Get of key %d reported not-found: it is live and fewer than size=%d other keys were touched since its last touch", op.Key, sc.Size)
						return
					}
					o.Counts["evicted-miss"]++
				}
				delete(m, op.Key)
			default:
				fail("get-error", "Get returned %s", out.Code)
			}
		}
	}
	for _, op := range sc.Tasks[0] {
		step(op)
		if o.Class != "" {
			break
		}
	}
	if o.Class == "" {
		// final probe: at most `size` keys retrievable
		hits := 0
		for k := 0; k < sc.NKeys; k++ {
			out := doTTL(c, ttlOp{Op: "get", Key: k, Mode: "plain"})
			log = append(log, fmt.Sprintf("probe k%d -> %+v", k, out))
			if out.Code == "ok" {
				hits++
				if live, _ := liveness(k); !live {
					fail("served-dead-key", "final probe: key %d retrievable although dead", k)
				}
			}
		}
		if hits > sc.Size {
			fail("more-than-size-keys-retrievable", "final probe retrieved %d distinct keys from a cache of size %d", hits, sc.Size)
		}
	}
	o.LogHash = hashLines(log)
	if keepLog {
		o.Log = log
	}
	o.Steps = len(log)
	o.Nontrivial = len(sc.Tasks[0]) >= 3
	o.SimTimeNs = (now - sc.BaseSec) * 1e9
	return o
}

func hashLines(l []string) string {
	var h uint64 = 14695981039346656037
	for _, s := range l {
		for i := 0; i < len(s); i++ {
			h ^= uint64(s[i])
			h *= 1099511628211
		}
		h ^= 0xff
		h *= 1099511628211
	}
	return fmt.Sprintf("%x", h)
}

// ---- mode redis: the redis-backed cache must agree with the in-memory one

func runC05Redis(sc *C05Scenario, keepLog bool) *hx.Outcome {
	o := &hx.Outcome{Counts: map[string]int{}}
	var log []string
	now := sc.BaseSec
	simtime.Manual = func() time.Time { return time.Unix(now, 0) }
	simsync.SingleGoroutine = true
	defer func() { simtime.Manual, simsync.SingleGoroutine = nil, false }()
	cli, fr := newFakeRedis(func() int64 { return now * 1000 })
	fr.ScanPage = sc.ScanPage
	defer cli.Close()
	rc := cache.NewTTLRdsCache(cli, "p:", sc.DefTTL)
	mc := cache.NewTTLMemCache(sc.Size, sc.DefTTL)
	liveKnown := map[int]int64{} // key -> deadline, for the keep-ttl restriction
	for _, op := range sc.Tasks[0] {
		if op.Op == "adv" {
			now += op.Adv
			log = append(log, fmt.Sprintf("t=%d adv %d", now-sc.BaseSec, op.Adv))
			continue
		}
		if op.Op == "set" && op.Keep {
			if dl, ok := liveKnown[op.Key]; !ok || now > dl {
				op.Keep = false // keep-ttl is compared on live keys only
			}
		}
		fr.failNext = op.Fail
		ro := doTTL(rc, op)
		fr.failNext = 0
		if ro.Code == "injected" {
			// the command was not executed: the redis side is unchanged, so the operation is not applied to the reference either
			o.Counts["redis-command-failed"]++
			log = append(log, fmt.Sprintf("t=%d %+v -> redis %+v (injected, skipped)", now-sc.BaseSec, op, ro))
			continue
		}
		mo := doTTL(mc, op)
		log = append(log, fmt.Sprintf("t=%d %+v -> redis %+v mem %+v", now-sc.BaseSec, op, ro, mo))
		if strings.HasPrefix(ro.Code, "err:") || strings.HasPrefix(ro.Code, "garbage") {
			o.Class, o.Msg = "redis-cache-error", fmt.Sprintf("redis-backed cache returned %s for %+v", ro.Code, op)
			break
		}
		if ro != mo {
			o.Class = "redis-disagrees-with-memory"
			o.Msg = fmt.Sprintf("same history, same positive ttl: %s key %d gives %+v from the redis-backed cache and %+v from the in-memory one (t=%ds)", op.Op, op.Key, ro, mo, now-sc.BaseSec)
			break
		}
		// track liveness for the keep-ttl restriction
		switch {
		case op.Op == "set" && ro.Code == "ok" && !op.Keep:
			ttl := sc.DefTTL
			if op.TTL != 0 {
				ttl = op.TTL
			}
			liveKnown[op.Key] = now + ttl
		case op.Op == "get" && op.Mode == "upd" && ro.Code == "ok":
			ttl := sc.DefTTL
			if op.TTL != 0 {
				ttl = op.TTL
			}
			liveKnown[op.Key] = now + ttl
		case op.Op == "get" && op.Mode == "rag" && ro.Code == "ok", op.Op == "remove":
			delete(liveKnown, op.Key)
		case op.Op == "clear":
			liveKnown = map[int]int64{}
		}
	}
	if keepLog {
		o.Log = append(log, "--- redis command stream ---")
		o.Log = append(o.Log, fr.Log...)
	}
	o.Counts["redis-commands"] = len(fr.Log)
	o.Counts["redis-scan-continued"] += fr.ScanPages
	o.LogHash = hashLines(append(log, fr.Log...))
	o.Steps = len(log)
	o.Nontrivial = len(sc.Tasks[0]) >= 3
	o.SimTimeNs = (now - sc.BaseSec) * 1e9
	return o
}

// ---- mode conc: concurrent callers, porcupine against the (eviction-free) model

type cState struct {
	now int64
	m   map[int]mEntry
}

func (s cState) clone() cState {
	n := cState{now: s.now, m: map[int]mEntry{}}
	for k, v := range s.m {
		n.m[k] = v
	}
	return n
}

func c05Model(sc *C05Scenario) porcupine.Model {
	return porcupine.Model{
		Init: func() interface{} { return cState{now: sc.BaseSec, m: map[int]mEntry{}} },
		Step: func(st, in, out interface{}) (bool, interface{}) {
			s := st.(cState).clone()
			op := in.(ttlOp)
			o := out.(ttlOut)
			e, has := s.m[op.Key]
			live := has && s.now <= e.dl
			switch op.Op {
			case "adv":
				s.now += op.Adv
				return true, s
			case "remove":
				delete(s.m, op.Key)
				return o.Code == "ok", s
			case "clear":
				s.m = map[int]mEntry{}
				return true, s
			case "set":
				ttl := sc.DefTTL
				if op.TTL != 0 {
					ttl = op.TTL
				}
				if live && op.MustNot {
					return o.Code == "exists", st
				}
				if live && op.Keep {
					e.id = op.ID
					s.m[op.Key] = e
				} else {
					s.m[op.Key] = mEntry{id: op.ID, dl: dlOf(s.now, ttl)}
				}
				return o.Code == "ok", s
			case "get":
				if !live {
					delete(s.m, op.Key)
					return o.Code == "notfound", s
				}
				if o.Code != "ok" || o.ID != e.id {
					return false, st
				}
				switch op.Mode {
				case "rag":
					delete(s.m, op.Key)
				case "upd":
					ttl := sc.DefTTL
					if op.TTL != 0 {
						ttl = op.TTL
					}
					e.dl = dlOf(s.now, ttl)
					s.m[op.Key] = e
				}
				return true, s
			}
			return false, st
		},
		Equal: func(a, b interface{}) bool {
			x, y := a.(cState), b.(cState)
			if x.now != y.now || len(x.m) != len(y.m) {
				return false
			}
			for k, v := range x.m {
				if w, ok := y.m[k]; !ok || w.id != v.id || w.dl != v.dl {
					return false
				}
			}
			return true
		},
		DescribeOperation: func(in, out interface{}) string { return fmt.Sprintf("%+v -> %+v", in, out) },
	}
}

func runC05Conc(t *testing.T, sc *C05Scenario, keepLog bool) *hx.Outcome {
	h := &hx.History{}
	cfg := sc.Knobs.Config(keepLog, 60000)
	cfg.BaseUnixMs = sc.BaseSec * 1000
	setIDs := map[int]map[int]bool{} // key -> ids ever stored under it
	for _, ops := range sc.Tasks {
		for _, op := range ops {
			if op.Op == "set" {
				if setIDs[op.Key] == nil {
					setIDs[op.Key] = map[int]bool{}
				}
				setIDs[op.Key][op.ID] = true
			}
		}
	}
	main := func(s *simrt.Sim) {
		c := cache.NewTTLMemCache(sc.Size, sc.DefTTL)
		if sc.Mode == "rconc" {
			cli, rfr := newFakeRedis(func() int64 { return s.WallNow().UnixMilli() })
			rfr.ScanPage = sc.ScanPage
			defer cli.Close()
			c = cache.NewTTLRdsCache(cli, "p:", sc.DefTTL)
		}
		var ts []*simrt.Task
		for ti, ops := range sc.Tasks {
			ti, ops := ti, ops
			ts = append(ts, simrt.GoNamed(fmt.Sprintf("client%d", ti), func() {
				me := simrt.Cur()
				for _, op := range ops {
					call := h.Invoke()
					var out ttlOut
					if op.Op == "adv" {
						// the clock steps only while no cache call is in flight: a call that straddled a step would
						// legitimately see two different readings, which the atomic-step model cannot express
						s.Block(me, func() bool {
							for _, x := range s.Tasks() {
								if x != me && x.InAPI() {
									return false
								}
							}
							return true
						}, "harness:clock-step")
						s.Advance(time.Duration(op.Adv) * time.Second)
						s.Count("clock-advance")
						out = ttlOut{Code: "ok"}
					} else {
						me.EnterAPI(op.Op)
						out = doTTL(c, op)
						me.ExitAPI()
					}
					h.Return(ti, call, op, out)
					s.Logf("c%d %+v -> %+v", ti, op, out)
					if op.Op == "get" && op.Mode == "rag" && out.Code == "ok" {
						s.Count("rag-hit")
					}
					simrt.Yield()
				}
			}))
		}
		hx.WaitDone(s, ts...)
		hits := 0
		for k := 0; k < sc.NKeys; k++ {
			op := ttlOp{Op: "get", Key: k, Mode: "plain"}
			call := h.Invoke()
			out := doTTL(c, op)
			h.Return(len(sc.Tasks), call, op, out)
			s.Logf("probe %d -> %+v", k, out)
			if out.Code == "ok" {
				hits++
				if sc.Mode == "cbound" && !setIDs[k][out.ID] {
					s.Fail("served-invented-value", "key %d: the cache returned v%d, which nobody stored under that key", k, out.ID)
				}
			}
		}
		if sc.Mode == "cbound" && hits > sc.Size {
			s.Fail("more-than-size-keys-retrievable", "concurrent callers: the final probe retrieved %d distinct keys from a cache of size %d", hits, sc.Size)
		}
	}
	res := hx.RunSim(t, cfg, nil, main)
	o := hx.FromResult(res)
	if o.Class == "" && res.Stuck {
		o.Class, o.Msg = "stuck", "tasks never finished: "+hx.Unfinished(res)
	}
	if o.Counts == nil {
		o.Counts = map[string]int{}
	}
	if o.Class == "" && sc.Mode != "cbound" {
		switch hx.CheckLin(c05Model(sc), h, 20*time.Second) {
		case "illegal":
			o.Class = "ttl-history-not-linearizable"
			if sc.Mode == "rconc" {
				o.Class = "redis-ttl-history-not-linearizable"
			}
			o.Msg = "concurrent callers: the recorded results (hits, values, already-exists, one-shot reads) are not those of the TTL map in any order consistent with real time"
		case "unknown":
			o.Counts["porcupine-unknown"]++
		default:
			o.Counts["porcupine-ok"]++
		}
	}
	return o
}

func runC05(t *testing.T, sci interface{}, keepLog bool) *hx.Outcome {
	sc := sci.(*C05Scenario)
	var o *hx.Outcome
	switch sc.Mode {
	case "seq":
		o = runC05Seq(sc, keepLog)
	case "redis":
		o = runC05Redis(sc, keepLog)
	default:
		o = runC05Conc(t, sc, keepLog)
	}
	if o.Counts == nil {
		o.Counts = map[string]int{}
	}
	o.Counts["mode-"+sc.Mode]++
	return o
}

func TestC05(t *testing.T) {
	hx.Main(t, hx.Prop{
		ID:          "C05",
		Draw:        drawC05,
		NewScenario: func() interface{} { return &C05Scenario{} },
		Run:         runC05,
		Real: []string{"cache.ttlMemCache (simgen-transformed)", "cache.ttlRdsCache (simgen-transformed)", "go-redis v9.0.4 client: command construction incl. duration rounding (never dials)",
			"container/list", "porcupine v1.3.0"},
		Stubs: []string{"time (simtime: manual whole-second clock / simulated clock)", "redis server (fakeredis: interpreter of SET/SETNX/GET/GETDEL/EXPIRE/DEL/SCAN (all keys at once or 1-10 per call, cursor over a snapshot) over a map with ms expiries on the same clock, optional per-command failure)",
			"sync (simsync)", "goroutine scheduling (simrt, concurrent mode)"},
		Rule: "three scenario classes drawn by rapid: seq = up to 40 Set(ttl?/must-not-exist/keep-ttl)/Get(plain/remove-after-get/update-ttl)/Remove/Clear/advance ops, size in {0,1,2,5}, default ttl in {-1,0,3,13}, checked op by op against a TTL-map model with a two-sided eviction bound; " +
			"conc = 2-4 tasks x up to 6 ops incl. clock advances under the baton scheduler, porcupine against the model; redis = the same history on the redis-backed and the in-memory cache (positive ttls, keep-ttl on live keys, clock never on a deadline) with optional per-command failures; " +
			"non-trivial = >=3 ops (seq/redis) or >=2 tasks and >=1 switch (conc); distinct = distinct hash of the operation/result log",
		Probes: []string{"mode-seq", "mode-conc", "mode-redis", "mode-rconc", "rag-hit", "evicted-miss", "redis-command-failed", "clock-advance", "redis-scan-continued"},
		Assumptions: []string{"clock readings are kept off deadlines (ttl = 3 mod 10, advances multiples of 10, base = 5 mod 10) except in the 'exact' sequential class where either answer is accepted on the deadline itself",
			"a miss on a live key is legal only if at least `size` other distinct keys were touched since its last touch (two-sided bound; exact eviction order is not modelled)"},
	})
}
