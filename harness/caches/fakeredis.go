package caches

import (
	"context"
	"errors"
	"fmt"
	"net"
	"sort"
	"strings"

	"github.com/redis/go-redis/v9"
)

// fakeRedis is a ~100-line interpreter of the seven commands the redis-backed TTL cache issues,
// sitting *behind* a real go-redis client: a ProcessHook answers every command instead of calling
// next, so nothing is dialled while the client's own command construction (SET .. PX/EX/KEEPTTL NX,
// SETNX, GET, GETDEL, EXPIRE, DEL, SCAN and its rounding of durations) is real code.
type fakeRedis struct {
	nowMs    func() int64
	data     map[string]fakeEntry
	failNext int // inject an error into the n-th next command (1 = next), 0 = none
	// ScanPage > 0: SCAN hands out the matching keys that many at a time (a server may return any number of elements per call; real
	// servers default to about 10); the cursor names a snapshot taken by the call with cursor 0, so that keys present during the
	// whole iteration are all returned whatever is deleted meanwhile - the guarantee SCAN gives
	ScanPage  int
	snaps     map[uint64][]string
	lastSnap  uint64
	ScanPages int // pages handed out with a non-zero cursor
	Log       []string
	Fired     int
}

type fakeEntry struct {
	val   string
	expMs int64 // 0 = no expiry
}

var errInjected = errors.New("fakeredis: injected command failure")

func newFakeRedis(nowMs func() int64) (*redis.Client, *fakeRedis) {
	f := &fakeRedis{nowMs: nowMs, data: map[string]fakeEntry{}}
	c := redis.NewClient(&redis.Options{Addr: "sim.invalid:0", MaxRetries: -1})
	c.AddHook(f)
	return c, f
}

func (f *fakeRedis) DialHook(next redis.DialHook) redis.DialHook {
	return func(ctx context.Context, network, addr string) (net.Conn, error) {
		return nil, errors.New("fakeredis: dialling is not allowed")
	}
}

func (f *fakeRedis) ProcessPipelineHook(next redis.ProcessPipelineHook) redis.ProcessPipelineHook {
	return func(ctx context.Context, cmds []redis.Cmder) error {
		return errors.New("fakeredis: pipelines unsupported")
	}
}

func (f *fakeRedis) live(k string) (fakeEntry, bool) {
	e, ok := f.data[k]
	if !ok {
		return e, false
	}
	if e.expMs != 0 && f.nowMs() >= e.expMs {
		delete(f.data, k)
		return e, false
	}
	return e, true
}

func str(a interface{}) string {
	switch v := a.(type) {
	case string:
		return v
	case []byte:
		return string(v)
	}
	return fmt.Sprint(a)
}

func i64(a interface{}) int64 {
	switch v := a.(type) {
	case int64:
		return v
	case int:
		return int64(v)
	case uint64:
		return int64(v)
	}
	var n int64
	fmt.Sscan(fmt.Sprint(a), &n)
	return n
}

func (f *fakeRedis) ProcessHook(next redis.ProcessHook) redis.ProcessHook {
	return func(ctx context.Context, cmd redis.Cmder) error {
		args := cmd.Args()
		name := strings.ToLower(str(args[0]))
		f.Log = append(f.Log, fmt.Sprint(args...))
		if f.failNext > 0 {
			f.failNext--
			if f.failNext == 0 {
				f.Fired++
				cmd.SetErr(errInjected)
				return errInjected
			}
		}
		switch name {
		case "set", "setnx":
			key, val := str(args[1]), str(args[2])
			var px int64
			keep, nx := false, name == "setnx"
			for i := 3; i < len(args); i++ {
				switch strings.ToLower(str(args[i])) {
				case "px":
					px = i64(args[i+1])
					i++
				case "ex":
					px = i64(args[i+1]) * 1000
					i++
				case "keepttl":
					keep = true
				case "nx":
					nx = true
				}
			}
			old, exists := f.live(key)
			if nx && exists {
				setBool(cmd, false)
				return nil
			}
			e := fakeEntry{val: val}
			if px > 0 {
				e.expMs = f.nowMs() + px
			} else if keep && exists {
				e.expMs = old.expMs
			}
			f.data[key] = e
			if !setBool(cmd, true) {
				cmd.(*redis.StatusCmd).SetVal("OK")
			}
		case "get", "getdel":
			key := str(args[1])
			e, ok := f.live(key)
			sc := cmd.(*redis.StringCmd)
			if !ok {
				sc.SetErr(redis.Nil)
				return redis.Nil
			}
			if name == "getdel" {
				delete(f.data, key)
			}
			sc.SetVal(e.val)
		case "expire":
			key := str(args[1])
			e, ok := f.live(key)
			if ok {
				e.expMs = f.nowMs() + i64(args[2])*1000
				f.data[key] = e
			}
			setBool(cmd, ok)
		case "del":
			var n int64
			for _, a := range args[1:] {
				if _, ok := f.live(str(a)); ok {
					n++
				}
				delete(f.data, str(a))
			}
			cmd.(*redis.IntCmd).SetVal(n)
		case "scan":
			pat := ""
			for i := 2; i < len(args); i++ {
				if strings.ToLower(str(args[i])) == "match" {
					pat = str(args[i+1])
				}
			}
			prefix := strings.TrimSuffix(pat, "*")
			var keys []string
			for k := range f.data {
				if _, ok := f.live(k); ok && strings.HasPrefix(k, prefix) {
					keys = append(keys, k)
				}
			}
			sort.Strings(keys)
			if f.ScanPage <= 0 {
				cmd.(*redis.ScanCmd).SetVal(keys, 0)
				break
			}
			cur := uint64(i64(args[1]))
			var snap []string
			var id, off uint64
			if cur == 0 {
				f.lastSnap++
				id = f.lastSnap
				if f.snaps == nil {
					f.snaps = map[uint64][]string{}
				}
				f.snaps[id] = keys
				snap = keys
			} else {
				id, off = cur>>20, cur&(1<<20-1)
				snap = f.snaps[id]
				f.ScanPages++
			}
			end := off + uint64(f.ScanPage)
			next := id<<20 | end
			if end >= uint64(len(snap)) {
				end, next = uint64(len(snap)), 0
				delete(f.snaps, id)
			}
			var page []string
			for _, k := range snap[off:end] {
				if _, ok := f.live(k); ok {
					page = append(page, k)
				}
			}
			cmd.(*redis.ScanCmd).SetVal(page, next)
		default:
			err := fmt.Errorf("fakeredis: unsupported command %q", name)
			cmd.SetErr(err)
			return err
		}
		return nil
	}
}

func setBool(cmd redis.Cmder, v bool) bool {
	if b, ok := cmd.(*redis.BoolCmd); ok {
		b.SetVal(v)
		return true
	}
	return false
}
