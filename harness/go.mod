module verif.local/harness

go 1.26.8

require (
	github.com/anishathalye/porcupine v1.3.0
	github.com/pinealctx/neptune v0.0.0
	pgregory.net/rapid v1.3.0
	verif.local/simrt v0.0.0
)

replace github.com/pinealctx/neptune => ../repo

replace verif.local/simrt => ../simrt
