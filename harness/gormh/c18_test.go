// Package gormh holds the sequential fault harness for C18 (gormx.Transact).
//
// Real gorm v1.25.1 and its MySQL dialector run on top of an in-process database/sql driver that
// records Begin / Commit / Rollback / Exec and fails where the scenario says so. database/sql keeps
// goroutines and real mutexes of its own, so this harness runs outside the synctest bubble; nothing
// in it depends on a schedule.
package gormh

import (
	"context"
	"database/sql"
	"database/sql/driver"
	"errors"
	"fmt"
	"io"
	"strconv"
	"strings"
	"sync"
	"testing"
	"time"

	"github.com/pinealctx/neptune/store/gormx"
	"github.com/pinealctx/neptune/ulog"
	"go.uber.org/zap/zapcore"
	"gorm.io/driver/mysql"
	"gorm.io/gorm"
	"gorm.io/gorm/logger"
	"pgregory.net/rapid"
	"verif.local/harness/hx"
)

func init() { ulog.SetLogLevel(zapcore.FatalLevel + 1) }

// ---- fake driver

type fakeDB struct {
	mu         sync.Mutex // database/sql's context watcher rolls back from its own goroutine
	events     []string
	failBegin  bool
	failCommit bool
	failRollbk bool
	failExecAt int // 1-based exec number that fails (0 = none)
	execs      int
}

func (d *fakeDB) add(e string) {
	d.mu.Lock()
	d.events = append(d.events, e)
	d.mu.Unlock()
}

var (
	errBegin    = errors.New("fake: begin failed")
	errCommit   = errors.New("fake: commit failed")
	errRollback = errors.New("fake: rollback failed")
	errExec     = errors.New("fake: exec failed")
)

type fakeConnector struct{ db *fakeDB }

func (c fakeConnector) Connect(context.Context) (driver.Conn, error) { return &fakeConn{c.db}, nil }
func (c fakeConnector) Driver() driver.Driver                        { return fakeDriver{} }

type fakeDriver struct{}

func (fakeDriver) Open(string) (driver.Conn, error) { return nil, errors.New("use the connector") }

type fakeConn struct{ db *fakeDB }

func (c *fakeConn) Prepare(q string) (driver.Stmt, error) { return &fakeStmt{c.db, q}, nil }
func (c *fakeConn) Close() error                          { return nil }
func (c *fakeConn) Begin() (driver.Tx, error) {
	return c.BeginTx(context.Background(), driver.TxOptions{})
}
func (c *fakeConn) BeginTx(ctx context.Context, o driver.TxOptions) (driver.Tx, error) {
	if c.db.failBegin {
		c.db.add("begin-failed")
		return nil, errBegin
	}
	c.db.add("begin")
	return &fakeTx{c.db}, nil
}
func (c *fakeConn) Ping(context.Context) error { return nil }
func (c *fakeConn) ExecContext(ctx context.Context, q string, args []driver.NamedValue) (driver.Result, error) {
	c.db.execs++
	if c.db.failExecAt == c.db.execs {
		c.db.add("exec-failed")
		return nil, errExec
	}
	c.db.add("exec")
	return driver.RowsAffected(1), nil
}

type fakeStmt struct {
	db *fakeDB
	q  string
}

func (s *fakeStmt) Close() error  { return nil }
func (s *fakeStmt) NumInput() int { return -1 }
func (s *fakeStmt) Exec(args []driver.Value) (driver.Result, error) {
	s.db.execs++
	if s.db.failExecAt == s.db.execs {
		s.db.add("exec-failed")
		return nil, errExec
	}
	s.db.add("exec")
	return driver.RowsAffected(1), nil
}
func (s *fakeStmt) Query(args []driver.Value) (driver.Rows, error) { return emptyRows{}, nil }

type emptyRows struct{}

func (emptyRows) Columns() []string         { return []string{"x"} }
func (emptyRows) Close() error              { return nil }
func (emptyRows) Next([]driver.Value) error { return io.EOF }

type fakeTx struct{ db *fakeDB }

func (t *fakeTx) Commit() error {
	if t.db.failCommit {
		t.db.add("commit-failed")
		return errCommit
	}
	t.db.add("commit")
	return nil
}
func (t *fakeTx) Rollback() error {
	if t.db.failRollbk {
		t.db.add("rollback-failed")
		return errRollback
	}
	t.db.add("rollback")
	return nil
}

// ---- scenario

type step struct {
	Kind  string `json:"kind"`  // ok | err | panic | exec
	Group int    `json:"group"` // steps with the same non-zero group are wrapped in one Combine
	// ErrKind (kind err): which error value the step returns. 0: an error of the harness's own; the others are values an
	// implementation might be tempted to treat specially (the transaction's own context is alive in all of them)
	ErrKind int `json:"err_kind"`
}

var errValues = []func(i int) error{
	func(i int) error { return &stepErr{i} },
	func(i int) error { return context.Canceled },
	func(i int) error { return context.DeadlineExceeded },
	func(i int) error { return sql.ErrTxDone },
	func(i int) error { return gorm.ErrRecordNotFound },
	func(i int) error { return fmt.Errorf("step %d: %w", i, context.Canceled) },
	func(i int) error { return driver.ErrBadConn },
	func(i int) error { return io.EOF },
	func(i int) error { return sql.ErrConnDone },
}

type C18Scenario struct {
	Steps        []step `json:"steps"`
	FailBegin    bool   `json:"fail_begin"`
	FailCommit   bool   `json:"fail_commit"`
	FailRollback bool   `json:"fail_rollback"`
	FailExecAt   int    `json:"fail_exec_at"`
}

func drawC18(rt *rapid.T) interface{} {
	sc := &C18Scenario{}
	n := rapid.IntRange(0, hx.Pick(5, 8)).Draw(rt, "nsteps")
	for i := 0; i < n; i++ {
		sc.Steps = append(sc.Steps, step{
			Kind:    rapid.SampledFrom([]string{"ok", "ok", "ok", "exec", "exec", "err", "err", "panic", "panic", "panicnil", "panicerr", "cancelctx"}).Draw(rt, "kind"),
			Group:   rapid.SampledFrom([]int{0, 0, 1, 2}).Draw(rt, "group"),
			ErrKind: rapid.IntRange(0, len(errValues)-1).Draw(rt, "errkind"),
		})
	}
	if rapid.IntRange(0, 24).Draw(rt, "long") == 0 {
		// a long list: the drawn steps follow a run of succeeding ones (a list is one transaction whatever its length)
		k := rapid.SampledFrom([]int{60, 100, 255, 256, 257, 511, 512, 513, 1000, 1023, 1024, 1025, 2000, 4097}).Draw(rt, "longn")
		prefix := make([]step, k)
		for i := range prefix {
			prefix[i] = step{Kind: "ok"}
			if i%97 == 5 {
				prefix[i].Kind = "exec"
			}
		}
		sc.Steps = append(prefix, sc.Steps...)
	}
	sc.FailBegin = rapid.IntRange(0, 5).Draw(rt, "fbegin") == 0
	sc.FailCommit = rapid.IntRange(0, 3).Draw(rt, "fcommit") == 0
	sc.FailRollback = rapid.IntRange(0, 3).Draw(rt, "frollback") == 0
	sc.FailExecAt = rapid.SampledFrom([]int{0, 0, 1, 2, 3}).Draw(rt, "fexec")
	return sc
}

type stepErr struct{ i int }

func (e *stepErr) Error() string { return fmt.Sprintf("step %d failed", e.i) }

func runC18(t *testing.T, sci interface{}, keepLog bool) *hx.Outcome {
	sc := sci.(*C18Scenario)
	o := &hx.Outcome{Counts: map[string]int{}}
	fdb := &fakeDB{failBegin: sc.FailBegin, failCommit: sc.FailCommit, failRollbk: sc.FailRollback, failExecAt: sc.FailExecAt}
	sqlDB := sql.OpenDB(fakeConnector{fdb})
	defer sqlDB.Close()
	gdb, err := gorm.Open(mysql.New(mysql.Config{Conn: sqlDB, SkipInitializeWithVersion: true}), &gorm.Config{Logger: logger.Discard, SkipDefaultTransaction: true})
	if err != nil {
		o.Class, o.Msg = "machinery", "gorm.Open on the fake driver failed: "+err.Error()
		return o
	}
	// a handle that carries a cancellable context: cancelling it makes database/sql roll the transaction back on its own
	cctx, cancel := context.WithCancel(context.Background())
	defer cancel()
	cancelAt := -1
	for i, st := range sc.Steps {
		if st.Kind == "cancelctx" {
			cancelAt = i
			break
		}
	}
	if cancelAt >= 0 {
		gdb = gdb.WithContext(cctx)
	}
	fdb.events = nil
	fdb.execs = 0

	// build the step functions; record which ran and what each returned
	var ran []int
	stepErrs := map[int]error{}
	mk := func(i int, s step) gormx.GormProcFn {
		return func(txn *gorm.DB) error {
			ran = append(ran, i)
			fdb.add(fmt.Sprintf("step%d", i))
			switch s.Kind {
			case "err":
				e := errValues[s.ErrKind%len(errValues)](i)
				stepErrs[i] = e
				return e
			case "panic":
				panic(fmt.Sprintf("step %d blew up", i))
			case "cancelctx":
				if i == cancelAt {
					cancel()
					// wait until database/sql's watcher goroutine has rolled the transaction back (real time, bounded)
					for k := 0; k < 2000; k++ {
						fdb.mu.Lock()
						n := len(fdb.events)
						last := ""
						if n > 0 {
							last = fdb.events[n-1]
						}
						fdb.mu.Unlock()
						if last == "rollback" || last == "rollback-failed" {
							break
						}
						time.Sleep(time.Millisecond)
					}
				}
			case "panicnil":
				var nothing interface{}
				panic(nothing) // a panic all the same (recover() returns nil for it under the repository's go 1.19 language level)
			case "panicerr":
				panic(fmt.Errorf("step %d blew up", i))
			case "exec":
				if e := txn.Exec("UPDATE t SET a = ? WHERE id = ?", i, 1).Error; e != nil {
					stepErrs[i] = e
					return e
				}
			}
			return nil
		}
	}
	var fns []gormx.GormProcFn
	for i := 0; i < len(sc.Steps); {
		s := sc.Steps[i]
		if s.Group == 0 {
			fns = append(fns, mk(i, s))
			i++
			continue
		}
		var grp []gormx.GormProcFn
		j := i
		for j < len(sc.Steps) && sc.Steps[j].Group == s.Group {
			grp = append(grp, mk(j, sc.Steps[j]))
			j++
		}
		fns = append(fns, gormx.Combine(grp...))
		i = j
	}

	var ret error
	escaped := interface{}(nil)
	func() {
		defer func() { escaped = recover() }()
		ret = gormx.Transact(gdb, fns...)
	}()

	ev := strings.Join(fdb.events, " ")
	log := []string{fmt.Sprintf("scenario %+v", *sc), "events: " + ev, fmt.Sprintf("returned: %v escaped panic: %v", ret, escaped)}
	fail := func(class, f string, a ...interface{}) {
		if o.Class == "" {
			o.Class, o.Msg = class, fmt.Sprintf(f, a...)+" [events: "+ev+"]"
		}
	}
	count := func(name string) int {
		n := 0
		for _, e := range fdb.events {
			if e == name {
				n++
			}
		}
		return n
	}
	begins := count("begin") + count("begin-failed")
	commits := count("commit") + count("commit-failed")
	rollbacks := count("rollback") + count("rollback-failed")

	// what the property says must happen
	firstFail := -1 // index of the first step that fails (error, panic, failing exec)
	execN := 0
	for i, s := range sc.Steps {
		bad := s.Kind == "err" || strings.HasPrefix(s.Kind, "panic")
		if s.Kind == "exec" {
			if cancelAt >= 0 && i > cancelAt {
				bad = true // the transaction is gone: the statement fails without reaching the driver
			} else {
				execN++
				if sc.FailExecAt == execN {
					bad = true
				}
			}
		}
		if bad {
			firstFail = i
			break
		}
	}
	switch {
	case escaped != nil:
		fail("panic-escaped", "a step's panic escaped Transact: %v", escaped)
	case len(sc.Steps) == 0:
		if begins != 0 || ret != nil {
			fail("began-without-steps", "no steps: expected nothing begun and nil, got %d begin(s) and %v", begins, ret)
		}
	case sc.FailBegin:
		o.Counts["begin-failure"]++
		if len(ran) != 0 {
			fail("step-ran-after-begin-failure", "begin failed, yet steps %v ran", ran)
		}
		if ret == nil {
			fail("begin-failure-swallowed", "begin failed but Transact returned nil")
		}
		if commits+rollbacks != 0 {
			fail("finish-without-begin", "begin failed, yet %d commit(s) and %d rollback(s) reached the driver", commits, rollbacks)
		}
	default:
		if begins != 1 {
			fail("begin-count", "expected exactly one begin, saw %d", begins)
		}
		if commits+rollbacks != 1 {
			fail("not-finished-exactly-once", "the transaction must be finished exactly once: %d commit(s), %d rollback(s)", commits, rollbacks)
		}
		// steps: all up to and including the first failing one, none after it
		wantRan := len(sc.Steps)
		if firstFail >= 0 {
			wantRan = firstFail + 1
		}
		if len(ran) != wantRan {
			fail("wrong-steps-ran", "steps that ran: %v, expected the first %d", ran, wantRan)
		}
		for k, i := range ran {
			if i != k {
				fail("wrong-steps-ran", "steps ran out of order: %v", ran)
			}
		}
		if firstFail < 0 && cancelAt >= 0 {
			// every step returned nil but the context ended meanwhile: database/sql rolled back, the commit cannot succeed
			o.Counts["context-cancelled-before-commit"]++
			if ret == nil {
				fail("commit-failure-swallowed", "the handle's context was cancelled during step %d and the transaction was rolled back by database/sql, yet Transact returned nil", cancelAt)
			}
			if commits != 0 || rollbacks != 1 {
				fail("not-finished-exactly-once", "context cancelled: expected the driver to see one rollback and no commit, saw %d rollback(s), %d commit(s)", rollbacks, commits)
			}
		} else if firstFail < 0 {
			o.Counts["all-steps-ok"]++
			if commits != 1 {
				fail("no-commit-after-success", "every step succeeded, expected a commit, saw %d commit(s) and %d rollback(s)", commits, rollbacks)
			}
			if sc.FailCommit {
				o.Counts["commit-failure"]++
				if ret == nil {
					fail("commit-failure-swallowed", "the commit failed but Transact returned nil")
				}
			} else if ret != nil {
				fail("error-after-successful-commit", "every step and the commit succeeded, Transact returned %v", ret)
			}
		} else {
			o.Counts["step-failure-"+sc.Steps[firstFail].Kind]++
			if sc.Steps[firstFail].Kind == "err" && sc.Steps[firstFail].ErrKind != 0 {
				o.Counts["step-failure-with-well-known-error-value"]++
			}
			if rollbacks != 1 || commits != 0 {
				fail("no-rollback-after-failure", "step %d failed (%s): expected one rollback and no commit, saw %d rollback(s), %d commit(s)", firstFail, sc.Steps[firstFail].Kind, rollbacks, commits)
			}
			if ret == nil {
				fail("step-failure-swallowed", "step %d failed (%s) but Transact returned nil", firstFail, sc.Steps[firstFail].Kind)
			} else if sc.Steps[firstFail].Kind == "panicnil" {
				// any error will do: there is no panic value to describe
			} else if strings.HasPrefix(sc.Steps[firstFail].Kind, "panic") {
				if !strings.Contains(ret.Error(), fmt.Sprintf("step %d blew up", firstFail)) {
					fail("wrong-error-returned", "step %d panicked, the returned error does not describe the panic: %v", firstFail, ret)
				}
			} else if want := stepErrs[firstFail]; !errors.Is(ret, want) {
				fail("wrong-error-returned", "step %d returned %v, Transact returned %v", firstFail, want, ret)
			}
			if sc.FailRollback {
				o.Counts["rollback-failure"]++
			}
		}
	}
	if o.Class != "" {
		log = append(log, "VIOLATION "+o.Class+": "+o.Msg)
	}
	// distinct = the fault pattern and what happened, not the raw text
	o.LogHash = fmt.Sprintf("%v|%v|%v|%v|%d|%s", kinds(sc.Steps), sc.FailBegin, sc.FailCommit, sc.FailRollback, sc.FailExecAt, ev)
	if keepLog {
		o.Log = log
	}
	o.Steps = len(fdb.events)
	if len(sc.Steps) > 50 {
		o.Counts["list-of-more-than-50-steps"]++
	}
	o.Nontrivial = len(sc.Steps) >= 1
	return o
}

func kinds(ss []step) string {
	var b strings.Builder
	for _, s := range ss {
		b.WriteString(s.Kind[:2])
		if s.Kind == "err" {
			b.WriteString(strconv.Itoa(s.ErrKind))
		}
		b.WriteString(fmt.Sprint(s.Group))
		b.WriteByte(',')
	}
	return b.String()
}

func TestC18(t *testing.T) {
	hx.Main(t, hx.Prop{
		ID:          "C18",
		Draw:        drawC18,
		NewScenario: func() interface{} { return &C18Scenario{} },
		Run:         runC18,
		Real:        []string{"store/gormx.Transact and Combine (unmodified)", "gorm v1.25.1 (Begin/Commit/Rollback/Exec)", "gorm MySQL dialector v1.5.1", "database/sql"},
		Stubs:       []string{"database/sql/driver (in-process fake: records begin/commit/rollback/exec, fails begin, commit, rollback or the n-th exec on demand)"},
		Rule: "scenario = 0-5 steps (1 in 25: preceded by a run of 60-4097 succeeding steps), each succeeding, returning an error (its own, or a well-known value: context.Canceled / DeadlineExceeded also wrapped, sql.ErrTxDone / ErrConnDone, gorm.ErrRecordNotFound, driver.ErrBadConn, io.EOF - with the transaction's context alive), panicking or executing a statement through the transaction (the n-th exec may fail), optionally wrapped in Combine groups, x begin / commit / rollback each failing or not; " +
			"oracle over the driver's event log and the returned error; non-trivial = >=1 step; distinct = distinct (step kinds, grouping, fault flags, driver event sequence)",
		Probes:      []string{"all-steps-ok", "begin-failure", "commit-failure", "rollback-failure", "step-failure-err", "step-failure-with-well-known-error-value", "step-failure-exec", "step-failure-panic", "step-failure-panicnil", "step-failure-panicerr", "context-cancelled-before-commit", "list-of-more-than-50-steps"},
		Assumptions: []string{"runs outside the synctest bubble (database/sql has goroutines and real mutexes of its own); no schedule is involved"},
	})
}
