package hx

import (
	"context"
	"time"

	"verif.local/simrt"
)

// SimCtx is a context.Context whose cancellation is a simulator event. Create it inside the bubble.
type SimCtx struct {
	done chan struct{}
	err  error
	dl   time.Time
	hasD bool
	Name string
}

// NewCtx makes a live context.
func NewCtx(name string) *SimCtx { return &SimCtx{done: make(chan struct{}), Name: name} }

// Cancel ends the context (idempotent). Call from a task holding the baton or from a controller timer.
func (c *SimCtx) Cancel() { c.end(context.Canceled) }

func (c *SimCtx) end(err error) {
	if c.err != nil {
		return
	}
	c.err = err
	close(c.done)
	if s := simrt.Active(); s != nil {
		s.Logf("ctx %s ended: %v", c.Name, err)
		s.Count("ctx-ended")
	}
}

// WithSimDeadline arms a deadline on the simulated clock: it fires only when the clock gets there,
// i.e. (discrete-event) when nothing else is runnable before.
func (c *SimCtx) WithSimDeadline(s *simrt.Sim, d time.Duration) *SimCtx {
	c.hasD = true
	c.dl = s.WallNow().Add(d)
	s.After(d, func() { c.end(context.DeadlineExceeded) })
	return c
}

func (c *SimCtx) Deadline() (time.Time, bool)       { return c.dl, c.hasD }
func (c *SimCtx) Done() <-chan struct{}             { return c.done }
func (c *SimCtx) Err() error                        { return c.err }
func (c *SimCtx) Value(key interface{}) interface{} { return nil }
func (c *SimCtx) Ended() bool                       { return c.err != nil }
