// Package hx is the shared worker runtime of the /verif checks: it draws scenarios through rapid
// (the single source of choice), runs them (inside a testing/synctest bubble when they are
// schedule-driven), collects coverage counters, shrinks failures and writes replay files.
package hx

import (
	"crypto/sha256"
	"encoding/hex"
	"encoding/json"
	"flag"
	"fmt"
	"os"
	"runtime/debug"
	"sort"
	"strconv"
	"strings"
	"testing"
	"testing/synctest"
	"time"

	"pgregory.net/rapid"
	"verif.local/simrt"
)

// Outcome of one scenario execution.
type Outcome struct {
	Class      string         `json:"class"` // "" = property held
	Msg        string         `json:"msg"`
	LogHash    string         `json:"log_hash"`
	Log        []string       `json:"log,omitempty"`
	Steps      int            `json:"steps"`
	Switches   int            `json:"switches"`
	Tasks      int            `json:"tasks"`
	SimTimeNs  int64          `json:"sim_time_ns"`
	Counts     map[string]int `json:"counts,omitempty"`
	Nontrivial bool           `json:"nontrivial"`
	Pairs      map[uint64]int `json:"-"`
}

// Prop describes one property check to the worker runtime.
type Prop struct {
	ID          string
	Draw        func(rt *rapid.T) interface{}                             // returns a pointer to a JSON-able scenario
	NewScenario func() interface{}                                        // empty scenario for JSON decoding
	Run         func(t *testing.T, sc interface{}, keepLog bool) *Outcome // executes one scenario
	Real        []string                                                  // components that ran real code
	Stubs       []string                                                  // components that were stubs
	Rule        string
	Assumptions []string
	Probes      []string // counters that a healthy batch is expected to hit; one stuck at zero is reported as a gap
}

// ReplayFile is what a violation is stored as.
type ReplayFile struct {
	Property string          `json:"property"`
	Class    string          `json:"class"`
	Msg      string          `json:"msg"`
	Seed     uint64          `json:"seed"`
	LogHash  string          `json:"log_hash"`
	Scenario json.RawMessage `json:"scenario"`
	Log      []string        `json:"log,omitempty"`
	LogSHA   string          `json:"log_sha256,omitempty"`
}

// WorkerReport is written by each worker process for the driver to merge.
type WorkerReport struct {
	Property    string            `json:"property"`
	Worker      int               `json:"worker"`
	Seed        uint64            `json:"seed"`
	Runs        int               `json:"runs"`
	Nontrivial  int               `json:"nontrivial"`
	Steps       int64             `json:"steps"`
	Switches    int64             `json:"switches"`
	SimTimeNs   int64             `json:"sim_time_ns"`
	Counts      map[string]int    `json:"counts"`
	Hashes      []string          `json:"hashes"` // distinct event-log hashes of non-trivial runs
	PairCount   int               `json:"pair_count"`
	Pairs       []uint64          `json:"pairs"`
	Violation   *ReplayFile       `json:"violation,omitempty"`
	Known       map[string]int    `json:"known,omitempty"`
	KnownDesc   map[string]string `json:"known_desc,omitempty"`
	Samples     []json.RawMessage `json:"samples"`
	WallS       float64           `json:"wall_s"`
	Real        []string          `json:"real"`
	Stubs       []string          `json:"stubs"`
	Rule        string            `json:"rule"`
	Assumptions []string          `json:"assumptions"`
	Probes      []string          `json:"probes"`
	ShrinkRuns  int               `json:"shrink_runs"`
	Reruns      int               `json:"reruns"`           // scenarios re-executed at the end of the worker, out of their original order
	MaxRealPts  int64             `json:"max_real_points"`  // most statements one scenario executed outside a simulation (budget: realBudget)
	RerunDiffs  int               `json:"rerun_mismatches"` // ... whose event-log hash differed (state leaking between runs)
}

type fakeTB struct {
	failed bool
	msgs   []string
}

func (f *fakeTB) Helper()              {}
func (f *fakeTB) Name() string         { return "verif" }
func (f *fakeTB) Logf(string, ...any)  {}
func (f *fakeTB) Log(...any)           {}
func (f *fakeTB) Skipf(string, ...any) {}
func (f *fakeTB) Skip(...any)          {}
func (f *fakeTB) SkipNow()             {}
func (f *fakeTB) Errorf(format string, a ...any) {
	f.failed = true
	f.msgs = append(f.msgs, fmt.Sprintf(format, a...))
}
func (f *fakeTB) Error(a ...any)                 { f.failed = true; f.msgs = append(f.msgs, fmt.Sprint(a...)) }
func (f *fakeTB) Fatalf(format string, a ...any) { f.Errorf(format, a...) }
func (f *fakeTB) Fatal(a ...any)                 { f.Error(a...) }
func (f *fakeTB) FailNow()                       {}
func (f *fakeTB) Fail()                          { f.failed = true }
func (f *fakeTB) Failed() bool                   { return f.failed }

func envInt(k string, d int64) int64 {
	v := os.Getenv(k)
	if v == "" {
		return d
	}
	n, err := strconv.ParseInt(v, 10, 64)
	if err != nil {
		return d
	}
	return n
}

func splitmix(x uint64) uint64 {
	x += 0x9E3779B97F4A7C15
	z := x
	z = (z ^ (z >> 30)) * 0xBF58476D1CE4E5B9
	z = (z ^ (z >> 27)) * 0x94D049BB133111EB
	return z ^ (z >> 31)
}

// loadKnown reads /verif/known_findings.txt: lines "finding: property=<id> class=<class> :: <text>".
func loadKnown(prop string) map[string]string {
	out := map[string]string{}
	path := os.Getenv("VERIF_KNOWN")
	if path == "" {
		path = "/verif/known_findings.txt"
	}
	b, err := os.ReadFile(path)
	if err != nil {
		return out
	}
	for _, ln := range strings.Split(string(b), "\n") {
		ln = strings.TrimSpace(ln)
		if !strings.HasPrefix(ln, "finding:") {
			continue
		}
		rest := strings.TrimSpace(strings.TrimPrefix(ln, "finding:"))
		desc := ""
		if i := strings.Index(rest, "::"); i >= 0 {
			desc = strings.TrimSpace(rest[i+2:])
			rest = strings.TrimSpace(rest[:i])
		}
		var p, c string
		for _, f := range strings.Fields(rest) {
			if strings.HasPrefix(f, "property=") {
				p = strings.TrimPrefix(f, "property=")
			}
			if strings.HasPrefix(f, "class=") {
				c = strings.TrimPrefix(f, "class=")
			}
		}
		if p == prop && c != "" {
			out[c] = desc
		}
	}
	return out
}

// Main is the body of every property's TestCheck.
func Main(t *testing.T, p Prop) {
	if path := os.Getenv("VERIF_REPLAY"); path != "" {
		replay(t, p, path)
		return
	}
	baseSeed := uint64(envInt("VERIF_SEED", 20261004))
	worker := int(envInt("VERIF_WORKER", 0))
	budget := time.Duration(envInt("VERIF_BUDGET_MS", 5000)) * time.Millisecond
	maxRuns := int(envInt("VERIF_MAX_RUNS", 1<<40))
	out := os.Getenv("VERIF_OUT")
	perRound := int(envInt("VERIF_ROUND", 100))
	known := loadKnown(p.ID)

	h := sha256.Sum256([]byte(p.ID))
	wseed := splitmix(baseSeed ^ splitmix(uint64(worker)+1) ^ uint64(h[0])<<8 ^ uint64(h[1]))
	rep := &WorkerReport{Property: p.ID, Worker: worker, Seed: wseed, Counts: map[string]int{}, Known: map[string]int{},
		KnownDesc: map[string]string{}, Real: p.Real, Stubs: p.Stubs, Rule: p.Rule, Assumptions: p.Assumptions, Probes: p.Probes}
	hashes := map[string]struct{}{}
	pairs := map[uint64]struct{}{}
	start := time.Now()

	var lastSc interface{}
	var lastOut *Outcome
	shrinking := false
	type kept struct {
		sc   interface{}
		hash string
	}
	var keep []kept

	prop := func(rt *rapid.T) {
		sc := p.Draw(rt)
		o := safeRun(p, t, sc, false)
		lastSc, lastOut = sc, o
		if shrinking {
			rep.ShrinkRuns++
		} else {
			rep.Runs++
			rep.Steps += int64(o.Steps)
			rep.Switches += int64(o.Switches)
			rep.SimTimeNs += o.SimTimeNs
			for k, v := range o.Counts {
				rep.Counts[k] += v
			}
			if o.Nontrivial {
				rep.Nontrivial++
				if len(hashes) < 4000000 {
					hashes[o.LogHash] = struct{}{}
				}
			}
			for k := range o.Pairs {
				pairs[k] = struct{}{}
			}
			if len(keep) < 40 && o.Class == "" {
				keep = append(keep, kept{sc, o.LogHash})
			}
			if len(rep.Samples) < 3 && o.Nontrivial {
				if b, err := json.Marshal(sc); err == nil {
					rep.Samples = append(rep.Samples, b)
				}
			}
		}
		if o.Class != "" {
			if d, ok := known[o.Class]; ok {
				rep.Known[o.Class]++
				rep.KnownDesc[o.Class] = d
				return
			}
			shrinking = true
			rt.Fatalf("%s", o.Class)
		}
	}

	_ = flag.Set("rapid.nofailfile", "true")
	_ = flag.Set("rapid.shrinktime", os.Getenv("VERIF_SHRINK"))
	if os.Getenv("VERIF_SHRINK") == "" {
		_ = flag.Set("rapid.shrinktime", "45s")
	}
	round := 0
	for time.Since(start) < budget && rep.Runs < maxRuns {
		n := perRound
		if rep.Runs+n > maxRuns {
			n = maxRuns - rep.Runs
		}
		_ = flag.Set("rapid.checks", strconv.Itoa(n))
		rs := splitmix(wseed + uint64(round)*0x10001)
		if rs == 0 {
			rs = 1
		}
		_ = flag.Set("rapid.seed", strconv.FormatUint(rs, 10))
		tb := &fakeTB{}
		rapid.Check(tb, prop)
		round++
		if tb.failed {
			if lastOut == nil || lastOut.Class == "" {
				// rapid reported a failure we cannot attribute: machinery trouble, not a violation
				fmt.Printf("MACHINERY property=%s rapid failure without violation: %s\n", p.ID, strings.Join(tb.msgs, " | "))
				rep.WallS = time.Since(start).Seconds()
				writeReport(out, rep, hashes, pairs)
				os.Exit(2)
			}
			// re-run the minimal scenario with the full log kept
			o := safeRun(p, t, lastSc, true)
			scb, _ := json.Marshal(lastSc)
			rf := &ReplayFile{Property: p.ID, Class: o.Class, Msg: o.Msg, Seed: rs, LogHash: o.LogHash, Scenario: scb, Log: o.Log}
			sum := sha256.Sum256([]byte(strings.Join(o.Log, "\n")))
			rf.LogSHA = hex.EncodeToString(sum[:])
			if o.Class == "" {
				// not reproducible in-process: keep what the failing run recorded
				rf.Class, rf.Msg, rf.LogHash = lastOut.Class, lastOut.Msg, lastOut.LogHash
			}
			rep.Violation = rf
			break
		}
	}
	if rep.Violation == nil {
		// self-check: re-execute the first scenarios after everything else ran; a different event log means
		// state leaks from one run into the next (replays would then depend on history)
		for i := len(keep) - 1; i >= 0; i-- {
			o := safeRun(p, t, keep[i].sc, false)
			rep.Reruns++
			if o.LogHash != keep[i].hash {
				rep.RerunDiffs++
			}
		}
	}
	rep.WallS = time.Since(start).Seconds()
	rep.MaxRealPts = maxRealPoints
	writeReport(out, rep, hashes, pairs)
}

// safeRun executes one scenario. The sequential harnesses call the code under test on their own goroutine, so a
// panic of that code escapes p.Run: it is a finding about the code (reported as class "panic" with the value and the
// stack), not trouble of the machinery. (Inside a simulation, task panics are collected by simrt and reported the same way.)
// realBudget bounds the statements one scenario may execute outside a simulation (transformed code called directly by a
// sequential harness); the largest count seen is reported as max_real_points.
const realBudget = 20000000

var maxRealPoints int64

func safeRun(p Prop, t *testing.T, sc interface{}, keepLog bool) (o *Outcome) {
	simrt.SetRealBudget(realBudget)
	defer func() {
		n := simrt.SetRealBudget(0)
		if n > maxRealPoints {
			maxRealPoints = n
		}
		if r := recover(); r != nil {
			if ra, ok := r.(simrt.Runaway); ok {
				sum := sha256.Sum256([]byte("runaway"))
				o = &Outcome{Class: "step-budget", Msg: ra.Error(), LogHash: hex.EncodeToString(sum[:8]), Counts: map[string]int{}, Nontrivial: true}
				if keepLog {
					o.Log = []string{ra.Error()}
				}
				return
			}
			val := fmt.Sprint(r)
			sum := sha256.Sum256([]byte("panic:" + val))
			o = &Outcome{Class: "panic", Msg: "panic escaped the scenario: " + val, LogHash: hex.EncodeToString(sum[:8]),
				Counts: map[string]int{}, Nontrivial: true}
			if keepLog {
				o.Log = append([]string{"panic: " + val}, strings.Split(string(debug.Stack()), "\n")...)
				if len(o.Log) > 60 {
					o.Log = o.Log[:60]
				}
			}
		}
	}()
	return p.Run(t, sc, keepLog)
}

func writeReport(out string, rep *WorkerReport, hashes map[string]struct{}, pairs map[uint64]struct{}) {
	for k := range hashes {
		rep.Hashes = append(rep.Hashes, k)
	}
	sort.Strings(rep.Hashes)
	for k := range pairs {
		rep.Pairs = append(rep.Pairs, k)
	}
	sort.Slice(rep.Pairs, func(i, j int) bool { return rep.Pairs[i] < rep.Pairs[j] })
	rep.PairCount = len(rep.Pairs)
	b, _ := json.Marshal(rep)
	if out == "" {
		fmt.Printf("runs=%d nontrivial=%d distinct=%d violation=%v\n", rep.Runs, rep.Nontrivial, len(rep.Hashes), rep.Violation != nil)
		if rep.Violation != nil {
			fmt.Printf("class=%s msg=%s\n", rep.Violation.Class, rep.Violation.Msg)
			for _, l := range rep.Violation.Log {
				fmt.Println("  ", l)
			}
			fmt.Printf("scenario=%s\n", rep.Violation.Scenario)
		}
		return
	}
	if err := os.WriteFile(out, b, 0o644); err != nil {
		fmt.Printf("MACHINERY cannot write report: %v\n", err)
		os.Exit(2)
	}
}

func replay(t *testing.T, p Prop, path string) {
	b, err := os.ReadFile(path)
	if err != nil {
		fmt.Printf("MACHINERY cannot read replay file: %v\n", err)
		os.Exit(2)
	}
	var rf ReplayFile
	if err := json.Unmarshal(b, &rf); err != nil {
		fmt.Printf("MACHINERY bad replay file: %v\n", err)
		os.Exit(2)
	}
	sc := p.NewScenario()
	if err := json.Unmarshal(rf.Scenario, sc); err != nil {
		fmt.Printf("MACHINERY bad scenario in replay file: %v\n", err)
		os.Exit(2)
	}
	o := safeRun(p, t, sc, true)
	res := map[string]interface{}{"class": o.Class, "msg": o.Msg, "log_hash": o.LogHash,
		"same_class": o.Class == rf.Class, "same_hash": o.LogHash == rf.LogHash, "log": o.Log}
	jb, _ := json.Marshal(res)
	if out := os.Getenv("VERIF_OUT"); out != "" {
		_ = os.WriteFile(out, jb, 0o644)
	}
	fmt.Printf("REPLAY property=%s class=%q expected=%q same_class=%v same_hash=%v\n", p.ID, o.Class, rf.Class, o.Class == rf.Class, o.LogHash == rf.LogHash)
	if os.Getenv("VERIF_REPLAY_VERBOSE") != "" {
		fmt.Printf("msg: %s\n", o.Msg)
		for _, l := range o.Log {
			fmt.Println("  ", l)
		}
	}
}

// ---------------------------------------------------------------- simulation helpers

// SimKnobs are the scheduler knobs drawn for every schedule-driven scenario.
type SimKnobs struct {
	Seed          uint64  `json:"seed"`
	Tape          []uint8 `json:"tape"`
	YieldPermille int     `json:"yield_permille"`
	StickPermille int     `json:"stick_permille"`
	SuppressLock  bool    `json:"suppress_lock"`
	SyncPermille  int     `json:"sync_permille"`
	PCTDepth      int     `json:"pct_depth"`
	PCTSteps      int     `json:"pct_steps"`
	// set by the harnesses that want the "slow task" fault (simrt.Config.EagerTimerPermille); never drawn by DrawKnobs
	EagerTimerPermille int `json:"eager_timer_permille,omitempty"`
}

// DrawKnobs draws the scheduler knobs (swarm style: every run gets its own mix).
func DrawKnobs(rt *rapid.T, yields []int) SimKnobs {
	if len(yields) == 0 {
		yields = []int{1000, 300, 100, 30}
	}
	k := SimKnobs{}
	k.YieldPermille = rapid.SampledFrom(yields).Draw(rt, "yield")
	k.StickPermille = rapid.SampledFrom([]int{0, 0, 500, 900}).Draw(rt, "stick")
	k.SuppressLock = rapid.IntRange(0, 3).Draw(rt, "suppress") != 0
	k.SyncPermille = rapid.SampledFrom([]int{0, 0, 500}).Draw(rt, "syncyield")
	if rapid.IntRange(0, 4).Draw(rt, "pct") == 0 {
		// a fifth of the runs: PCT scheduling (priorities + d change points) instead of the tape / random walk
		k.PCTDepth = rapid.IntRange(1, 3).Draw(rt, "pctdepth")
		k.PCTSteps = rapid.SampledFrom([]int{30, 100, 300, 1000}).Draw(rt, "pctsteps")
	}
	k.Tape = rapid.SliceOfN(rapid.Uint8Range(0, 5), 0, 48).Draw(rt, "tape")
	k.Seed = rapid.Uint64().Draw(rt, "schedseed")
	return k
}

// Config turns knobs into a simrt.Config.
func (k SimKnobs) Config(keepLog bool, maxSteps int) simrt.Config {
	return simrt.Config{Seed: k.Seed, Tape: k.Tape, YieldPermille: k.YieldPermille, StickPermille: k.StickPermille,
		SuppressLock: k.SuppressLock, SyncPermille: k.SyncPermille, KeepLog: keepLog, MaxSteps: maxSteps,
		PCTDepth: k.PCTDepth, PCTSteps: k.PCTSteps, EagerTimerPermille: k.EagerTimerPermille}
}

// RunSim executes main as task 0 of a fresh simulation inside a synctest bubble.
// setup (optional) runs in the controller before scheduling starts, e.g. to install OnQuiescent.
func RunSim(t *testing.T, cfg simrt.Config, setup func(s *simrt.Sim), main func(s *simrt.Sim)) (res *simrt.Result) {
	func() {
		defer func() {
			if r := recover(); r != nil {
				msg := fmt.Sprint(r)
				if !strings.Contains(msg, "deadlock") && !strings.Contains(msg, "blocked goroutines") {
					panic(r)
				}
			}
		}()
		synctest.Test(t, func(t *testing.T) {
			s := simrt.New(cfg, synctest.Wait)
			if setup != nil {
				setup(s)
			}
			res = s.Run(func() { main(s) })
		})
	}()
	return res
}

// FromResult fills the generic part of an Outcome from a simulation result.
func FromResult(res *simrt.Result) *Outcome {
	o := &Outcome{LogHash: res.LogHash, Log: res.Log, Steps: res.Steps, Switches: res.Switches, Tasks: res.Tasks,
		SimTimeNs: res.SimTimeNs, Counts: res.Counts, Pairs: res.Pairs}
	o.Nontrivial = res.Tasks >= 2 && res.Switches >= 1
	if o.Counts == nil {
		o.Counts = map[string]int{}
	}
	switch {
	case res.Points > 10000000:
		o.Counts["runs-with-more-than-1e7-points"]++
	case res.Points > 1000000:
		o.Counts["runs-with-more-than-1e6-points"]++
	case res.Points > 100000:
		o.Counts["runs-with-more-than-1e5-points"]++
	}
	if len(res.Panics) > 0 {
		// a panic inside a task is the root cause of whatever the oracles saw afterwards
		o.Class, o.Msg = "panic", strings.Join(res.Panics, "; ")
		if res.Violation != nil {
			o.Msg += " (then: " + res.Violation.Class + ")"
		}
	} else if res.Violation != nil {
		o.Class, o.Msg = res.Violation.Class, res.Violation.Msg
	} else if res.Budget {
		o.Class, o.Msg = "step-budget", "scheduling step budget exceeded (livelock or runaway)"
	}
	return o
}

// Unfinished renders the unfinished tasks of a result.
func Unfinished(res *simrt.Result) string {
	var parts []string
	for _, u := range res.Unfinished {
		parts = append(parts, fmt.Sprintf("task %d %s: %s wait=%s api=%s", u.Idx, u.Name, u.State, u.Wait, u.API))
	}
	return strings.Join(parts, "; ")
}

// WaitDone parks the calling task until all given tasks are done.
func WaitDone(s *simrt.Sim, ts ...*simrt.Task) {
	s.Block(simrt.Cur(), func() bool {
		for _, t := range ts {
			if t.State() != simrt.Done {
				return false
			}
		}
		return true
	}, "harness:wait-done")
}

// WaitBlockedOrDone parks the calling task until each given task is blocked (sim or native) or done.
func WaitBlockedOrDone(s *simrt.Sim, ts ...*simrt.Task) {
	s.Block(simrt.Cur(), func() bool {
		for _, t := range ts {
			if t.State() != simrt.Done && !t.Blocked() {
				return false
			}
		}
		return true
	}, "harness:wait-blocked")
}

// Thorough reports whether the thorough tier was requested: generators widen their bounds then.
func Thorough() bool { return os.Getenv("VERIF_TIER") == "thorough" }

// Pick returns a for the quick tier and b for the thorough tier.
func Pick(a, b int) int {
	if Thorough() {
		return b
	}
	return a
}

// typed keys: the interface{}-keyed containers route different key types through different code (integer widths by
// modulo, strings / byte slices through the hash); key index i stands for the value KeyOf(i).
var typedKeys = []interface{}{int(0), int(1), int64(2), "k3", uint8(4), int(-1), int32(-7), uint64(1 << 40), "", int16(300)}

// KeyOf maps a small key index to a typed key value (stable, distinct per index).
func KeyOf(i int) interface{} {
	if i >= 0 && i < len(typedKeys) {
		return typedKeys[i]
	}
	return i
}

// Rare reports true for about 1 scenario in n. rapid's small integer ranges are heavily biased towards their lower edge
// (IntRange(0, 39) == 0 holds far more often than 1 time in 40), which makes an expensive scenario class dominate the budget;
// here a 64-bit draw is mixed first, so that only the unbiased part of rapid's distribution can hit.
func Rare(rt *rapid.T, n int, label string) bool {
	v := rapid.Uint64().Draw(rt, label)
	return splitmix(v^0x5851f42d4c957f2d)%uint64(n) == 0
}
