package hx

import (
	"fmt"
	"os"
	"time"

	"github.com/anishathalye/porcupine"
)

// History collects operations stamped with a global, totally ordered event counter.
type History struct {
	ev  int64
	Ops []porcupine.Operation
}

// Invoke returns the call stamp of a new operation.
func (h *History) Invoke() int64 { h.ev++; return h.ev }

// Return records a completed operation.
func (h *History) Return(client int, call int64, in, out interface{}) {
	h.ev++
	h.Ops = append(h.Ops, porcupine.Operation{ClientId: client, Input: in, Call: call, Output: out, Return: h.ev})
}

// CheckLin runs porcupine on the history. It must be called outside the synctest bubble.
// Result: "ok", "illegal" or "unknown" (timeout; never reported as a violation).
func CheckLin(m porcupine.Model, h *History, timeout time.Duration) string {
	if len(h.Ops) == 0 {
		return "ok"
	}
	t0 := time.Now()
	defer func() {
		if d := time.Since(t0); d > 2*time.Second {
			if f := os.Getenv("VERIF_SLOWLOG"); f != "" {
				if fh, err := os.OpenFile(f, os.O_APPEND|os.O_CREATE|os.O_WRONLY, 0o644); err == nil {
					fmt.Fprintf(fh, "slow porcupine check: %v, %d ops\n", d, len(h.Ops))
					for _, op := range h.Ops {
						fmt.Fprintf(fh, "  c%d [%d,%d] %+v -> %+v\n", op.ClientId, op.Call, op.Return, op.Input, op.Output)
					}
					fh.Close()
				}
			}
		}
	}()
	switch porcupine.CheckOperationsTimeout(m, h.Ops, timeout) {
	case porcupine.Ok:
		return "ok"
	case porcupine.Illegal:
		return "illegal"
	}
	return "unknown"
}
