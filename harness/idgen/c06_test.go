// Package idgen holds the harness for C06 (id generators under any clock history and schedule).
package idgen

import (
	"fmt"
	"testing"
	"time"

	"github.com/pinealctx/neptune/idgen/nano"
	"github.com/pinealctx/neptune/idgen/snowflake"
	"pgregory.net/rapid"
	"verif.local/harness/hx"
	"verif.local/simrt"
	simsync "verif.local/simrt/simsync"
)

// clock program: the k-th clock reading = previous reading + delta of the segment k falls in;
// after the last segment the last delta repeats.
type clockSeg struct {
	DeltaNs int64 `json:"delta_ns"`
	Reads   int   `json:"reads"`
}

type phase struct {
	Calls   []int `json:"calls"`   // per task: number of Generate calls
	Restart bool  `json:"restart"` // before the phase: rebuild the node from the last issued id (HardNode only)
}

type C06Scenario struct {
	Knobs     hx.SimKnobs `json:"knobs"`
	Gen       string      `json:"gen"`        // hard | mono | nano | nanonl (the lock-free variant under a lock of the caller's)
	NanoStart int         `json:"nano_start"` // nano: 0 -> starts at 0; 1 -> starts one hour ahead of the clock (a persisted id of a faster clock)
	BadNode   int         `json:"bad_node"`   // hard/mono: 1 -> node -1, 2 -> node max+1, 3 -> 2*max+1: the constructor must refuse (else ids carry a wrong node)
	NodeBits  uint8       `json:"node_bits"`
	AtLowest  bool        `json:"node_at_lowest"`
	EpochKind int         `json:"epoch_kind"` // 0: 2000-01-01, 1: repository default (2021), 2: 1 ms before the first reading
	Node      int64       `json:"node"`
	MinKind   int         `json:"min_kind"`             // hard: 0 -> NewNode(node, 0); 1 -> NewNode(node, id of an earlier instant, step 77); 2 -> id of the first reading's millisecond, last step (4095); 3 -> id of one second after the first reading, last step
	FarYears  int         `json:"far_years,omitempty"`  // the clock starts this many years after 2023: timestamps beyond 41 bits (legal for the 9- and 8-bit node layouts)
	RestartAt int         `json:"restart_at,omitempty"` // restart: 0 -> from the last issued id; 1 -> from the id with the same millisecond and node and the last step (4095), which the node may just as well have issued last
	Clock     []clockSeg  `json:"clock"`
	Phases    []phase     `json:"phases"`
}

const baseNs = int64(1700000000123456789)

func drawC06(rt *rapid.T) interface{} {
	sc := &C06Scenario{}
	sc.Gen = rapid.SampledFrom([]string{"hard", "hard", "hard", "mono", "mono", "nano", "nanonl"}).Draw(rt, "gen")
	sc.NodeBits = rapid.SampledFrom([]uint8{8, 9, 10}).Draw(rt, "bits")
	sc.AtLowest = rapid.Bool().Draw(rt, "atlowest")
	sc.EpochKind = rapid.IntRange(0, 2).Draw(rt, "epoch")
	max := int64(1)<<sc.NodeBits - 1
	sc.Node = rapid.SampledFrom([]int64{0, 1, max, max - 1, max / 2, 5}).Draw(rt, "node")
	sc.MinKind = rapid.IntRange(0, 1).Draw(rt, "min")
	if rapid.IntRange(0, 3).Draw(rt, "edge") == 0 {
		sc.MinKind = rapid.IntRange(2, 3).Draw(rt, "minedge")
	}
	sc.RestartAt = rapid.SampledFrom([]int{0, 0, 1}).Draw(rt, "restartat")
	switch sc.NodeBits {
	case 9:
		sc.FarYears = rapid.SampledFrom([]int{0, 0, 0, 70}).Draw(rt, "far")
	case 8:
		sc.FarYears = rapid.SampledFrom([]int{0, 0, 0, 70, 190}).Draw(rt, "far")
	}
	sc.NanoStart = rapid.IntRange(0, 1).Draw(rt, "nanostart")
	if rapid.IntRange(0, 11).Draw(rt, "badnode") == 0 {
		sc.BadNode = rapid.IntRange(1, 3).Draw(rt, "badkind")
		sc.Node = []int64{-1, max + 1, 2*max + 1}[sc.BadNode-1]
	}
	// clock program
	var deltas []int64
	switch sc.Gen {
	case "mono":
		// monotonic clock: never backwards; sub-millisecond ticks keep its spin-to-next-millisecond loop finite
		deltas = []int64{100, 1000, 50_000, 250_000, 1_000_000, 1_000_000, 3_000_000, 1_000_000_000, 3600_000_000_000}
	default:
		deltas = []int64{0, 0, 0, 1, 1000, 250_000, 1_000_000, 1_000_000, 1_000_000_000, 3600_000_000_000, 86400_000_000_000 * 365,
			-1, -1000, -1_000_000, -1_000_000, -1_000_000_000, -3600_000_000_000}
	}
	ns := rapid.IntRange(1, 6).Draw(rt, "nseg")
	big := rapid.IntRange(0, 19).Draw(rt, "big") == 0 // a run that crosses the 4096-step wrap several times
	for i := 0; i < ns; i++ {
		seg := clockSeg{DeltaNs: rapid.SampledFrom(deltas).Draw(rt, "delta")}
		if big {
			seg.Reads = rapid.SampledFrom([]int{1, 10, 4096, 4100, 9000}).Draw(rt, "reads")
		} else {
			seg.Reads = rapid.SampledFrom([]int{1, 1, 2, 5, 20, 100}).Draw(rt, "reads")
		}
		if seg.DeltaNs >= 86400_000_000_000 {
			seg.Reads = rapid.IntRange(1, 3).Draw(rt, "yreads") // stay inside the timestamp width
		}
		sc.Clock = append(sc.Clock, seg)
	}
	np := rapid.IntRange(1, 3).Draw(rt, "nphases")
	for i := 0; i < np; i++ {
		ph := phase{Restart: i > 0 && rapid.Bool().Draw(rt, "restart")}
		nt := rapid.IntRange(1, 4).Draw(rt, "ntasks")
		for j := 0; j < nt; j++ {
			if big {
				ph.Calls = append(ph.Calls, rapid.SampledFrom([]int{5, 50, 1500, 4200}).Draw(rt, "calls"))
			} else {
				ph.Calls = append(ph.Calls, rapid.IntRange(1, 40).Draw(rt, "calls"))
			}
		}
		sc.Phases = append(sc.Phases, ph)
	}
	if big {
		sc.Knobs = hx.DrawKnobs(rt, []int{30, 10, 3})
	} else {
		sc.Knobs = hx.DrawKnobs(rt, []int{1000, 300, 100, 30})
	}
	return sc
}

type gen interface{ Generate() int64 }

// composeID builds the id the scenario's layout assigns to (milliseconds since the epoch, configured node, step)
func composeID(sc *C06Scenario, tms, step int64) int64 {
	if sc.AtLowest {
		return tms<<(uint(sc.NodeBits)+12) | step<<uint(sc.NodeBits) | sc.Node
	}
	return tms<<(uint(sc.NodeBits)+12) | sc.Node<<12 | step
}

type nanoGen struct{ n *nano.UnixNanoID }

func (g nanoGen) Generate() int64 { return g.n.GenID() }

// the lock-free variant: "lock control by caller" - the callers share a (simulated) mutex of their own
type nanoNoLockGen struct {
	n  *nano.UnixNanoNoLockID
	mu *simsync.Mutex
}

func (g nanoNoLockGen) Generate() int64 {
	g.mu.Lock()
	defer g.mu.Unlock()
	return g.n.GenID()
}

func runC06(t *testing.T, sci interface{}, keepLog bool) *hx.Outcome {
	sc := sci.(*C06Scenario)
	base := baseNs + int64(sc.FarYears)*365*86400_000_000_000
	var (
		reads    int
		cur      = base
		seg, inS int
		lastRead = map[*simrt.Task]int64{} // smallest reading made by the task's current call (0 = none yet): an implementation may read the clock more than once
	)
	nextReading := func() int64 {
		if reads > 0 {
			for seg < len(sc.Clock)-1 && inS >= sc.Clock[seg].Reads {
				seg++
				inS = 0
			}
			cur += sc.Clock[seg].DeltaNs
			if lim := base + 40*365*86400_000_000_000; cur > lim {
				cur = lim // stay inside the timestamp width of every layout (the far future is a stall there)
			}
			inS++
		}
		reads++
		return cur
	}
	var epochMs int64
	switch sc.EpochKind {
	case 0:
		epochMs = 946684800000
	case 1:
		epochMs = 1609430400000
	default:
		epochMs = baseNs/1e6 - 1
	}
	var restore func()
	maxSteps := 3000000

	setup := func(s *simrt.Sim) {
		// the layout is installed through the package's own Setup options; the verif-tagged switch only provides the
		// neutral starting point and the way back (Setup cannot turn node-at-lowest off again)
		restore = snowflake.VerifSetConfig(0, 10, false)
		opts := []snowflake.Option{snowflake.UseEpoch(time.UnixMilli(epochMs)), snowflake.UseNodeMode(snowflake.NodeBitsMode(sc.NodeBits))}
		if sc.AtLowest {
			opts = append(opts, snowflake.NodeAtLowest())
		}
		snowflake.Setup(opts...)
		s.Clock = func(tk *simrt.Task) time.Time {
			r := nextReading()
			if tk != nil && (lastRead[tk] == 0 || r < lastRead[tk]) {
				lastRead[tk] = r
			}
			if r < cur-1 {
				s.Count("never")
			}
			return time.Unix(0, r)
		}
	}

	main := func(s *simrt.Sim) {
		var g gen
		var maxReturned int64 = -1 << 62
		seen := map[int64]bool{}
		var lastIssued int64
		nanoStart := int64(0)
		if sc.NanoStart == 1 && (sc.Gen == "nano" || sc.Gen == "nanonl") {
			// the generator starts from a value of a clock that ran ahead: every call takes the counting path
			nanoStart = base + 3600_000_000_000
		}
		build := func(min int64) {
			switch sc.Gen {
			case "hard":
				n, err := snowflake.NewNode(sc.Node, min)
				if err != nil && sc.BadNode != 0 {
					s.Count("node-out-of-range-refused")
					return
				}
				if err != nil {
					s.Fail("newnode-error", "NewNode(%d, %d): %v", sc.Node, min, err)
					return
				}
				g = n
			case "mono":
				n, err := snowflake.NewMonoNode(sc.Node)
				if err != nil && sc.BadNode != 0 {
					s.Count("node-out-of-range-refused")
					return
				}
				if err != nil {
					s.Fail("newnode-error", "NewMonoNode(%d): %v", sc.Node, err)
					return
				}
				g = n
			case "nanonl":
				g = nanoNoLockGen{nano.NewUnixNanoNoLockID(nanoStart), &simsync.Mutex{}}
			default:
				g = nanoGen{nano.NewUnixNanoID(nanoStart)}
			}
		}
		min := int64(0)
		if sc.Gen == "hard" && sc.MinKind == 1 {
			// an id of an instant 5 s before the first reading, step 77: the node must continue above it
			tms := base/1e6 - 5000 - epochMs
			if sc.AtLowest {
				min = tms<<(uint(sc.NodeBits)+12) | 77<<uint(sc.NodeBits) | sc.Node
			} else {
				min = tms<<(uint(sc.NodeBits)+12) | sc.Node<<12 | 77
			}
			maxReturned = min
		}
		if sc.Gen == "hard" && sc.MinKind >= 2 && sc.BadNode == 0 {
			// an id carrying the last step of its millisecond: the first reading's own millisecond, or one second ahead of it
			tms := base/1e6 - epochMs
			if sc.MinKind == 3 {
				tms += 1000
			}
			min = composeID(sc, tms, 4095)
			maxReturned = min
			s.Count("start-from-last-step")
		}
		build(min)
		if s.Failed() || g == nil {
			return
		}
		prevSign := int64(0)
		for pi, ph := range sc.Phases {
			if ph.Restart && sc.Gen == "hard" && lastIssued != 0 {
				from := lastIssued
				if sc.RestartAt == 1 {
					tf, _, _ := snowflake.IDFields(lastIssued)
					if last := composeID(sc, tf, 4095); last >= lastIssued {
						from = last
						maxReturned = from
						s.Count("restart-from-last-step")
					}
				}
				build(from)
				s.Logf("restart from %d", from)
				s.Count("restart")
			}
			var ts []*simrt.Task
			for ti, n := range ph.Calls {
				ti, n := ti, n
				ts = append(ts, simrt.GoNamed(fmt.Sprintf("p%dcaller%d", pi, ti), func() {
					me := simrt.Cur()
					var mine int64 = -1 << 62
					for i := 0; i < n; i++ {
						floor := maxReturned
						lastRead[me] = 0
						me.EnterAPI("Generate")
						id := g.Generate()
						me.ExitAPI()
						rd := lastRead[me]
						s.Logf("p%dc%d -> %d (reading %d)", pi, ti, id, rd-baseNs)
						if seen[id] {
							s.Fail("duplicate-id", "%s generator returned id %d twice", sc.Gen, id)
							return
						}
						seen[id] = true
						if id <= floor {
							s.Fail("id-not-increasing", "%s generator returned %d after a call that had already returned %d", sc.Gen, id, floor)
							return
						}
						if id <= mine {
							s.Fail("id-not-increasing", "%s generator returned %d to a caller that had already got %d", sc.Gen, id, mine)
							return
						}
						mine = id
						if id > maxReturned {
							maxReturned = id
						}
						lastIssued = maxReturned
						if sc.Gen == "hard" || sc.Gen == "mono" {
							tf, node, _ := snowflake.IDFields(id)
							if node != sc.Node {
								s.Fail("wrong-node-field", "id %d carries node %d, configured node is %d", id, node, sc.Node)
								return
							}
							if sc.Gen == "hard" && rd != 0 && tf < rd/1e6-epochMs {
								s.Fail("timestamp-before-clock", "id %d carries timestamp %d ms, the clock reading of that call was %d ms after the epoch", id, tf, rd/1e6-epochMs)
								return
							}
							// (a negative id is not judged: when the clock reads before the epoch - which "any epoch, any sequence of
							// readings" includes - the timestamp field is negative and so is the id; the property demands order,
							// timestamp >= reading and the node field, all of which are judged above)
						}
						if rd != 0 && prevSign != 0 && rd < prevSign {
							s.Count("clock-went-backwards")
						}
						if rd != 0 && rd == prevSign {
							s.Count("clock-stalled")
						}
						if rd != 0 {
							prevSign = rd
						}
						simrt.Yield()
					}
				}))
			}
			hx.WaitDone(s, ts...)
			if s.Failed() {
				return
			}
		}
	}

	cfg := sc.Knobs.Config(keepLog, maxSteps)
	res := hx.RunSim(t, cfg, setup, main)
	if restore != nil {
		restore()
	}
	o := hx.FromResult(res)
	if o.Class == "" && res.Stuck {
		o.Class, o.Msg = "stuck", "callers never finished: "+hx.Unfinished(res)
	}
	if o.Counts == nil {
		o.Counts = map[string]int{}
	}
	o.Counts["gen-"+sc.Gen]++
	o.Counts["clock-reads"] += reads
	total := 0
	for _, ph := range sc.Phases {
		for _, n := range ph.Calls {
			total += n
		}
	}
	if sc.FarYears > 0 {
		o.Counts["timestamp-beyond-41-bits"]++
	}
	if total > 4096 {
		o.Counts["runs-crossing-step-wrap"]++
	}
	o.Nontrivial = total >= 3
	return o
}

func TestC06(t *testing.T) {
	hx.Main(t, hx.Prop{
		ID:          "C06",
		Draw:        drawC06,
		NewScenario: func() interface{} { return &C06Scenario{} },
		Run:         runC06,
		Real:        []string{"idgen/snowflake HardNode, MonoNode, IDFields (simgen-transformed)", "idgen/nano.UnixNanoID and UnixNanoNoLockID (simgen-transformed)"},
		Stubs:       []string{"time (simtime: every Now/Since is the next reading of a drawn clock program: stalls, backward and forward jumps, ticks)", "sync (simsync.Mutex)", "goroutine scheduling (simrt)", "snowflake layout installed through snowflake.Setup (the verif-tagged VerifSetConfig provides the neutral start and the restore)"},
		Rule: "scenario = generator (wall-clock node, monotonic node, unix-nano, lock-free unix-nano under the callers' own lock; unix-nano starting at 0 or one hour ahead of the clock) x layout (node bits 8/9/10, node-at-lowest, 3 epochs, node number at the edges; 1 in 12: a node number outside the layout, which the constructor must refuse) x clock program (1-6 segments of (delta, reads): 0, +-1ns..+-1h, +1y) x 1-3 phases of 1-4 concurrent callers (1-40 calls; 1 in 20 runs up to 4200 calls per caller to cross the 4096-step wrap) with optional restart from the last issued id or from the last step (4095) of its millisecond; start ids at step 77 of an earlier instant or at step 4095 of the current / a later millisecond; for 9/8 node bits 1 in 4 runs start 70 / 190 years later (timestamps of 42 / 43 bits) x scheduler knobs/tape; " +
			"non-trivial = >=3 calls; distinct = distinct event-log hash",
		Probes: []string{"gen-hard", "gen-mono", "gen-nano", "gen-nanonl", "node-out-of-range-refused", "restart", "clock-went-backwards", "clock-stalled", "runs-crossing-step-wrap", "start-from-last-step", "restart-from-last-step", "timestamp-beyond-41-bits"},
		Assumptions: []string{"the monotonic node is driven by non-decreasing clock programs only (real Go computes Since on the monotonic reading); its spin loop needs a clock that advances per read",
			"forward jumps stay inside the timestamp width of the layout"},
	})
}
