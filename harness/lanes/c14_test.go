// Package lanes holds the harnesses for C14 (actor lanes) and C15 (mux worker group).
package lanes

import (
	"context"
	"errors"
	"fmt"
	"math"
	"strings"
	"sync"
	"testing"

	"github.com/pinealctx/neptune/syncx/pipe"
	"github.com/pinealctx/neptune/syncx/pipe/async"
	"github.com/pinealctx/neptune/syncx/pipe/line"
	"github.com/pinealctx/neptune/syncx/pipe/mline"
	"github.com/pinealctx/neptune/ulog"
	"go.uber.org/zap/zapcore"
	"pgregory.net/rapid"
	"verif.local/harness/hx"
	"verif.local/simrt"
	simsync "verif.local/simrt/simsync"
)

func init() {
	ulog.SetLogLevel(zapcore.FatalLevel)
}

// warmUp fills the reflective runner's process-wide function-type cache before the first scenario of a process, so that
// the first scenario takes the same path (read lock, cache hit) as every later one and as a replay. It runs as a
// simulation of its own (once): if the code under test is broken so badly that this panics or hangs, the simulator
// contains it and the scenarios proper report it.
var warmOnce sync.Once
var warmFailure *hx.Outcome

func warmUp(t *testing.T) {
	warmOnce.Do(func() {
		res := hx.RunSim(t, simrt.Config{Seed: 1, MaxSteps: 20000, YieldPermille: 1000}, nil, func(s *simrt.Sim) {
			wg := &simsync.WaitGroup{}
			r := async.NewRunnerQ(async.WithQSize(1), async.WithWaitGroup(wg))
			r.Run()
			_, _ = r.AsyncCall(func(c context.Context, arg int) (interface{}, error) { return nil, nil }, context.Background(), 0)
			r.Stop()
			r.WaitStop()
		})
		// the warm-up is a plain use of the runner (start, one valid call, stop): if even that fails, every scenario of
		// the process reports it (the type cache it fills would otherwise hide a first-call failure from the scenarios)
		if o := hx.FromResult(res); o.Class != "" || res.Stuck {
			if o.Class == "" {
				o.Class, o.Msg = "stuck", hx.Unfinished(res)
			}
			o.Msg = "the runner's first use in the process (start, one call with a valid function, stop) failed: " + o.Msg
			o.LogHash, o.Nontrivial = "warm-up", true
			warmFailure = o
		}
	})
}

type laneCall struct {
	ID      int    `json:"id"`
	Hash    int    `json:"hash"`
	Ctx     string `json:"ctx"` // bg | pre | later
	CancelK int    `json:"cancel_k"`
	Yields  int    `json:"yields"` // yields inside the callee
	Fail    bool   `json:"fail"`   // callee returns an error
}

type C14Scenario struct {
	Knobs   hx.SimKnobs  `json:"knobs"`
	Kind    string       `json:"kind"` // line | mline | runner-call | runner-delegate | runner-proc | procchan
	Slots   int          `json:"slots"`
	QSize   int          `json:"qsize"`
	Callers [][]laneCall `json:"callers"`
	StopK   int          `json:"stop_k"`   // -1: stop only at the end; else a stopper task stops after k yields
	WaitVia string       `json:"wait_via"` // both | own | wg (runner queue, proc channel)
	RunK    int          `json:"run_k"`    // 0: Run before the first call (the usual order); k > 0: a starter task calls Run after k-1 yields, so calls - and Stop - may come first
}

var hashes = []int{0, 1, -1, 2, 3, 5, -5, 7, math.MaxInt, math.MinInt, math.MinInt + 1, 1 << 40, -(1 << 40)}

func drawC14(rt *rapid.T) interface{} {
	sc := &C14Scenario{}
	sc.Kind = rapid.SampledFrom([]string{"line", "mline", "mline", "runner-call", "runner-delegate", "runner-proc", "procchan"}).Draw(rt, "kind")
	sc.Slots = rapid.SampledFrom([]int{1, 2, 3, 5}).Draw(rt, "slots")
	sc.QSize = rapid.SampledFrom([]int{1, 2, 8}).Draw(rt, "qsize")
	sc.StopK = rapid.SampledFrom([]int{-1, -1, 0, 1, 2, 4, 8}).Draw(rt, "stopk")
	sc.WaitVia = rapid.SampledFrom([]string{"both", "own", "wg"}).Draw(rt, "waitvia")
	sc.RunK = rapid.SampledFrom([]int{0, 0, 0, 1, 2, 5, 12}).Draw(rt, "runk")
	if hx.Rare(rt, hx.Pick(300, 60), "crowd") {
		// a backlog: one lane, a first call that keeps it busy, 70-270 callers queueing one call each behind it (more accepted
		// and unstarted calls than any initial queue capacity one might think of)
		sc.Kind = rapid.SampledFrom([]string{"line", "mline"}).Draw(rt, "crowdkind")
		sc.StopK, sc.RunK = -1, rapid.SampledFrom([]int{0, 0, 3}).Draw(rt, "crowdrunk")
		sc.QSize = rapid.SampledFrom([]int{0, 300, 1000, 8}).Draw(rt, "crowdq") // 0: the package's default; 8: the crowd is refused as full
		n := rapid.SampledFrom([]int{70, 100, 140, 270}).Draw(rt, "crowdn")
		h := rapid.SampledFrom(hashes).Draw(rt, "crowdhash")
		sc.Callers = append(sc.Callers, []laneCall{{ID: 1, Hash: h, Ctx: "bg", Yields: rapid.SampledFrom([]int{20, 100, 400}).Draw(rt, "crowdbusy")}})
		for i := 0; i < n; i++ {
			sc.Callers = append(sc.Callers, []laneCall{{ID: i + 2, Hash: h, Ctx: "bg", Yields: rapid.IntRange(0, 1).Draw(rt, "crowdy")}})
		}
		sc.Knobs = hx.DrawKnobs(rt, nil)
		return sc
	}
	nc := rapid.IntRange(2, hx.Pick(5, 7)).Draw(rt, "ncallers")
	id := 1
	for i := 0; i < nc; i++ {
		n := rapid.IntRange(1, 4).Draw(rt, "ncalls")
		var cs []laneCall
		for j := 0; j < n; j++ {
			c := laneCall{ID: id}
			id++
			c.Hash = rapid.SampledFrom(hashes).Draw(rt, "hash")
			if sc.Kind == "mline" && rapid.IntRange(0, 3).Draw(rt, "slotmult") == 0 {
				c.Hash = sc.Slots * rapid.SampledFrom([]int{1, -1, 2}).Draw(rt, "mult")
			}
			c.Ctx = rapid.SampledFrom([]string{"bg", "bg", "bg", "pre", "later", "later"}).Draw(rt, "ctx")
			c.CancelK = rapid.IntRange(0, 6).Draw(rt, "cancelk")
			c.Yields = rapid.IntRange(0, 2).Draw(rt, "yields")
			c.Fail = rapid.IntRange(0, 3).Draw(rt, "fail") == 0
			cs = append(cs, c)
		}
		sc.Callers = append(sc.Callers, cs)
	}
	sc.Knobs = hx.DrawKnobs(rt, nil)
	return sc
}

type callRec struct {
	c            laneCall
	task         *simrt.Task
	ctx          *hx.SimCtx
	invokeEv     int64
	acceptedEv   int64
	startEv      int64
	returnEv     int64
	starts       int
	ends         int
	lane         int
	laneTask     int
	afterStop    bool
	overlapped   bool // another call was in the making at some moment of this call
	idleAtInvoke bool // when this call was invoked every earlier call had come and gone completely
	inflight     bool
	returned     bool
	val          interface{}
	err          error
}

type calleeFn func(ctx context.Context, lane int) (interface{}, error)

// waitVia says how the harness learns that a runner queue / proc channel has stopped: "own" = its WaitStop only,
// "wg" = the WaitGroup handed in as an option only, "both" (set per scenario; the harness is one scenario at a time).
var waitVia = "both"

type executor interface {
	Run()
	Call(ctx context.Context, hash int, fn calleeFn) (interface{}, error)
	Stop()
	WaitStopped(s *simrt.Sim)
	Closed(err error) bool
	Full(err error) bool
}

type lineEx struct {
	l  *line.Line
	wg *simsync.WaitGroup
}

func (e *lineEx) Run() { e.l.Run() }
func (e *lineEx) Call(ctx context.Context, hash int, fn calleeFn) (interface{}, error) {
	return e.l.AsyncCall(ctx, line.NewCallCtx(func(c context.Context, req interface{}) (interface{}, error) { return fn(c, -1) }, hash))
}
func (e *lineEx) Stop()                    { e.l.Stop() }
func (e *lineEx) WaitStopped(s *simrt.Sim) { e.wg.Wait() }
func (e *lineEx) Closed(err error) bool    { return err == pipe.ErrQueueClosed }
func (e *lineEx) Full(err error) bool      { return err == pipe.ErrQueueFull }

type mlineEx struct{ m *mline.MultiLine }

func (e *mlineEx) Run() { e.m.Run() }
func (e *mlineEx) Call(ctx context.Context, hash int, fn calleeFn) (interface{}, error) {
	return e.m.AsyncCall(ctx, mline.NewCallCtx(hash, func(c context.Context, idx int, req interface{}) (interface{}, error) { return fn(c, idx) }, hash))
}
func (e *mlineEx) Stop() { e.m.Stop() }
func (e *mlineEx) WaitStopped(s *simrt.Sim) {
	if err := e.m.WaitStop(hx.NewCtx("waitstop")); err != nil {
		s.Fail("waitstop-error", "WaitStop returned %v", err)
	}
}
func (e *mlineEx) Closed(err error) bool { return err == pipe.ErrQueueClosed }
func (e *mlineEx) Full(err error) bool   { return err == pipe.ErrQueueFull }

type procT struct{ fn calleeFn }

func (p procT) Do(ctx context.Context) (interface{}, error) { return p.fn(ctx, -1) }

type runnerEx struct {
	r    *async.RunnerQ
	mode string
	wg   *simsync.WaitGroup
}

func (e *runnerEx) Run() { e.r.Run() }
func (e *runnerEx) Call(ctx context.Context, hash int, fn calleeFn) (interface{}, error) {
	switch e.mode {
	case "runner-call":
		return e.r.AsyncCall(func(c context.Context, arg int) (interface{}, error) { return fn(c, -1) }, ctx, hash)
	case "runner-delegate":
		return e.r.AsyncDelegate(ctx, func(c context.Context) (interface{}, error) { return fn(c, -1) })
	}
	return e.r.AsyncProc(ctx, procT{fn})
}
func (e *runnerEx) Stop() { e.r.Stop() }
func (e *runnerEx) WaitStopped(s *simrt.Sim) {
	// either way of learning that the runner has stopped must be enough on its own
	if waitVia != "wg" {
		e.r.WaitStop()
	}
	if waitVia != "own" {
		e.wg.Wait()
	}
}
func (e *runnerEx) Closed(err error) bool { return err == async.ErrClosed }
func (e *runnerEx) Full(err error) bool   { return err == async.ErrFull }

type procChanEx struct {
	p  *async.ProcChan
	wg *simsync.WaitGroup
}

func (e *procChanEx) Run() { e.p.Run() }
func (e *procChanEx) Call(ctx context.Context, hash int, fn calleeFn) (interface{}, error) {
	return e.p.AsyncProc(ctx, procT{fn})
}
func (e *procChanEx) Stop() { e.p.Stop() }
func (e *procChanEx) WaitStopped(s *simrt.Sim) {
	if waitVia != "wg" {
		e.p.WaitStop()
	}
	if waitVia != "own" {
		e.wg.Wait()
	}
}
func (e *procChanEx) Closed(err error) bool { return err == async.ErrClosed }
func (e *procChanEx) Full(err error) bool   { return err == async.ErrFull }

func valFor(id int) interface{} { return fmt.Sprintf("result-of-%d", id) }
func errFor(id int) error       { return fmt.Errorf("error-of-%d", id) }

func runC14(t *testing.T, sci interface{}, keepLog bool) *hx.Outcome {
	sc := sci.(*C14Scenario)
	warmUp(t)
	if warmFailure != nil {
		return warmFailure
	}
	waitVia = sc.WaitVia
	if waitVia == "" {
		waitVia = "both"
	}
	var (
		ev            int64
		recs          []*callRec
		busy          = map[int]int{} // lane -> id of the call running there (0 = idle)
		laneOfTask    = map[int]int{}
		taskOfLane    = map[int]int{}
		laneOfHash    = map[int]int{}
		stopInvoked   bool
		stopReturned  bool
		ex            executor
		started       bool
		multiLaneKind = sc.Kind == "mline"
	)
	observe := func(s *simrt.Sim) {
		if !started {
			return
		}
		for _, r := range recs {
			if r.inflight && r.acceptedEv == 0 && r.task.State() == simrt.Native {
				r.acceptedEv = ev
				s.Count("call-observed-accepted")
			}
		}
	}

	main := func(s *simrt.Sim) {
		switch sc.Kind {
		case "line":
			wg := &simsync.WaitGroup{}
			ex = &lineEx{l: line.NewLine(wg, line.WithQSize(sc.QSize), line.WithName("sim")), wg: wg}
		case "mline":
			ex = &mlineEx{m: mline.NewMultiLine(pipe.WithSlotSize(sc.Slots), pipe.WithQSize(sc.QSize))}
		case "procchan":
			wg := &simsync.WaitGroup{}
			ex = &procChanEx{p: async.NewProcChan(async.WithQSize(sc.QSize), async.WithWaitGroup(wg), async.WithName("sim")), wg: wg}
		default:
			wg := &simsync.WaitGroup{}
			ex = &runnerEx{r: async.NewRunnerQ(async.WithQSize(sc.QSize), async.WithWaitGroup(wg), async.WithName("sim")), mode: sc.Kind, wg: wg}
		}
		var starter *simrt.Task
		if sc.RunK == 0 {
			ex.Run()
			if sc.Kind != "mline" {
				ex.Run() // starting twice is a no-op for the executors that guard Run with a Once (the multi-line executor does not)
			}
		} else {
			starter = simrt.GoNamed("starter", func() {
				for i := 1; i < sc.RunK; i++ {
					simrt.Yield()
				}
				s.Logf("run invoked (late)")
				if stopInvoked {
					s.Count("run-after-stop")
				}
				ex.Run()
				s.Count("late-run")
			})
		}
		started = true
		// backlog class: the callers take turns - the second one calls once the lane has taken the first call off its queue,
		// every further one once its predecessor's call is known to be accepted - and the first call keeps the lane busy until
		// all the others are queued: acceptance order is then a total order the lane has to follow
		crowd := len(sc.Callers) > 64
		recOfCaller := make([]*callRec, len(sc.Callers))
		var callers []*simrt.Task
		for ci, calls := range sc.Callers {
			ci, calls := ci, calls
			callers = append(callers, simrt.GoNamed(fmt.Sprintf("caller%d", ci), func() {
				me := simrt.Cur()
				for _, c := range calls {
					c := c
					if crowd && ci > 0 {
						s.Block(me, func() bool {
							p := recOfCaller[ci-1]
							if p == nil {
								return false
							}
							if ci == 1 {
								return p.starts > 0 || p.returned
							}
							return p.acceptedEv != 0 || p.returned
						}, "harness:crowd-turn")
					}
					cx := hx.NewCtx(fmt.Sprintf("call%d", c.ID))
					switch c.Ctx {
					case "pre":
						cx.Cancel()
					case "later":
						k := c.CancelK
						simrt.GoNamed(fmt.Sprintf("canceller%d", c.ID), func() {
							for i := 0; i < k; i++ {
								simrt.Yield()
							}
							cx.Cancel()
						})
					}
					r := &callRec{c: c, task: me, ctx: cx, lane: -2, laneTask: -1}
					recs = append(recs, r)
					recOfCaller[ci] = r
					callee := func(ctx context.Context, lane int) (interface{}, error) {
						lt := simrt.Cur()
						ev++
						r.starts++
						r.startEv = ev
						r.lane, r.laneTask = lane, lt.Idx
						s.Logf("start call %d lane=%d task=%d", c.ID, lane, lt.Idx)
						if r.starts > 1 {
							s.Fail("call-executed-twice", "call %d was executed %d times", c.ID, r.starts)
						}
						if r.afterStop {
							s.Fail("executed-after-stop", "call %d was invoked after Stop had returned and was executed nevertheless", c.ID)
						}
						// the lane is the unit of seriality, whichever goroutine the executor uses to run the callee: one lane for
						// the single executors, the lane index handed to the callee for the multi-line executor
						laneKey := 0
						if multiLaneKind {
							laneKey = lane
						}
						if other := busy[laneKey]; other != 0 {
							s.Fail("lane-overlap", "call %d started on lane %d (goroutine %d) while call %d was still running on that lane", c.ID, laneKey, lt.Idx, other)
						}
						busy[laneKey] = c.ID
						if multiLaneKind {
							if lane < 0 || lane >= sc.Slots {
								s.Fail("lane-index-out-of-range", "callee got lane index %d, lanes = %d", lane, sc.Slots)
							}
							if old, ok := laneOfTask[lt.Idx]; ok && old != lane {
								s.Fail("lane-index-not-the-lanes", "lane goroutine %d reported lane %d and now %d", lt.Idx, old, lane)
							}
							laneOfTask[lt.Idx] = lane
							if old, ok := taskOfLane[lane]; ok && old != lt.Idx {
								s.Fail("lane-index-not-the-lanes", "lane %d is served by goroutines %d and %d", lane, old, lt.Idx)
							}
							taskOfLane[lane] = lt.Idx
							if old, ok := laneOfHash[c.Hash]; ok && old != lane {
								s.Fail("equal-hash-different-lane", "hash %d ran on lane %d and on lane %d", c.Hash, old, lane)
							}
							laneOfHash[c.Hash] = lane
						}
						// order: every call known to be accepted before this one was invoked, sure to share the lane, must have started
						for _, a := range recs {
							if a == r || a.acceptedEv == 0 || a.acceptedEv >= r.invokeEv || a.starts > 0 {
								continue
							}
							if multiLaneKind && a.c.Hash != c.Hash {
								continue
							}
							if strings.HasPrefix(sc.Kind, "runner") || sc.Kind == "procchan" {
								if a.ctx.Ended() {
									continue // a call whose context ended is skipped by the runner, not executed
								}
							}
							s.Fail("lane-order", "call %d started before call %d, which had been accepted before call %d was even invoked", c.ID, a.c.ID, c.ID)
						}
						if crowd && ci == 0 {
							s.Block(lt, func() bool {
								for _, p := range recOfCaller {
									if p == nil || (p.acceptedEv == 0 && !p.returned && p != r) {
										return false
									}
								}
								return true
							}, "harness:crowd-busy")
						}
						for i := 0; i < c.Yields; i++ {
							simrt.Yield()
						}
						busy[laneKey] = 0
						ev++
						r.ends++
						s.Logf("end call %d", c.ID)
						if c.Fail {
							return nil, errFor(c.ID)
						}
						return valFor(c.ID), nil
					}
					ev++
					r.invokeEv = ev
					r.afterStop = stopReturned
					r.idleAtInvoke = true
					for _, a := range recs {
						if a == r {
							continue
						}
						if a.inflight {
							a.overlapped, r.overlapped = true, true
						}
						refused := a.returned && a.err != nil && (ex.Closed(a.err) || ex.Full(a.err))
						if !(a.returned && (refused || (a.starts == 1 && a.ends == 1))) {
							r.idleAtInvoke = false // an earlier call may still sit in the queue (abandoned by its caller) or be running
						}
					}
					r.inflight = true
					me.EnterAPI("AsyncCall")
					v, err := ex.Call(cx, c.Hash, callee)
					me.ExitAPI()
					r.inflight = false
					ev++
					r.returnEv, r.returned, r.val, r.err = ev, true, v, err
					s.Logf("caller%d call %d hash=%d ctx=%s -> %v %v", ci, c.ID, c.Hash, c.Ctx, v, err)
					notAccepted := err != nil && (ex.Closed(err) || ex.Full(err))
					if sc.Kind == "procchan" && ex.Closed(err) && r.starts > 0 {
						notAccepted = false
					}
					if !notAccepted && r.acceptedEv == 0 {
						r.acceptedEv = ev
					}
					// result routing
					switch {
					case err == nil:
						if c.Fail || v != valFor(c.ID) {
							s.Fail("wrong-result", "call %d returned value %v, expected its own result (fail=%v)", c.ID, v, c.Fail)
						}
						if r.starts == 0 {
							s.Fail("result-without-execution", "call %d returned a value although it never ran", c.ID)
						}
					case ex.Closed(err):
						if !stopInvoked {
							s.Fail("closed-before-stop", "call %d was refused as closed although Stop had not been called", c.ID)
						}
					case ex.Full(err):
						s.Count("refused-full")
						// a queue of size >= 1 cannot be full when every earlier call has come and gone completely (refused, or
						// executed to its end and answered) and no other call was invoked while this one was being made
						idle := r.idleAtInvoke && !r.overlapped
						if idle && !stopInvoked {
							s.Fail("refused-as-full-while-idle", "call %d was refused as 'queue full' although the executor was idle and its queue (size %d) empty", c.ID, sc.QSize)
						}
					case errors.Is(err, context.Canceled) || errors.Is(err, context.DeadlineExceeded):
						if !cx.Ended() {
							s.Fail("foreign-context-error", "call %d got a context error although its own context is live", c.ID)
						}
						s.Count("caller-got-ctx-error")
					default:
						if !c.Fail || err.Error() != errFor(c.ID).Error() {
							s.Fail("wrong-result", "call %d returned error %v, expected its own", c.ID, err)
						}
					}
					if r.afterStop && !ex.Closed(err) {
						s.Fail("accepted-after-stop", "call %d was invoked after Stop had returned and was not refused as closed (got %v, %v)", c.ID, v, err)
					}
					simrt.Yield()
				}
			}))
		}
		var stopper *simrt.Task
		if sc.StopK >= 0 {
			stopper = simrt.GoNamed("stopper", func() {
				for i := 0; i < sc.StopK; i++ {
					simrt.Yield()
				}
				stopInvoked = true
				s.Logf("stop invoked")
				ex.Stop()
				stopReturned = true
				s.Logf("stop returned")
				s.Count("stop-mid-run")
			})
		}
		if starter != nil {
			hx.WaitDone(s, starter)
		}
		hx.WaitDone(s, callers...)
		if stopper != nil {
			hx.WaitDone(s, stopper)
		}
		stopInvoked = true
		ex.Stop()
		ex.Stop() // stopping twice is a no-op
		stopReturned = true
		ex.WaitStopped(s)
		s.Logf("stopped")
		// every accepted call completed (line, multi-line, runner queue)
		if sc.Kind != "procchan" {
			for _, r := range recs {
				notAccepted := r.err != nil && (ex.Closed(r.err) || ex.Full(r.err))
				if notAccepted {
					if r.starts > 0 {
						s.Fail("refused-call-executed", "call %d was refused (%v) but executed", r.c.ID, r.err)
					}
					continue
				}
				if r.starts == 0 {
					if strings.HasPrefix(sc.Kind, "runner") && r.ctx.Ended() {
						continue
					}
					s.Fail("accepted-call-never-ran", "call %d was accepted before Stop but never executed", r.c.ID)
				}
			}
		}
		// lane goroutines terminate: the stop wait has returned; what is left of them may still be on its way out
		// (a deferred close after the signal, a select that has just been woken by the closed stop channel), so let them
		// run until each is done or blocked - blocked means it never ends
		simrt.Yield()
		s.Block(simrt.Cur(), func() bool {
			for _, tk := range s.Tasks() {
				if strings.HasPrefix(tk.Name, "go@") && tk.State() != simrt.Done && !tk.Blocked() {
					return false
				}
			}
			return true
		}, "harness:lanes-winding-down")
		for _, tk := range s.Tasks() {
			if strings.HasPrefix(tk.Name, "go@") && tk.State() != simrt.Done {
				s.Fail("lane-goroutine-alive", "goroutine %d (%s) of the executor is still alive after Stop and the stop wait returned: %s", tk.Idx, tk.Name, tk.WaitDesc())
			}
		}
	}

	res := hx.RunSim(t, sc.Knobs.Config(keepLog, 60000+4000*len(sc.Callers)), func(s *simrt.Sim) { s.OnQuiescent = observe }, main)
	o := hx.FromResult(res)
	if o.Class == "" && res.Stuck {
		o.Class, o.Msg = "stuck", "callers or lanes never finished: "+hx.Unfinished(res)
	}
	if o.Class == "panic" && strings.Contains(o.Msg, "index out of range") {
		o.Class = "lane-index-out-of-range"
	}
	if len(sc.Callers) > 64 {
		if o.Counts == nil {
			o.Counts = map[string]int{}
		}
		o.Counts["backlog-of-more-than-64-callers"]++
	}
	return o
}

func TestC14(t *testing.T) {
	hx.Main(t, hx.Prop{
		ID:          "C14",
		Draw:        drawC14,
		NewScenario: func() interface{} { return &C14Scenario{} },
		Run:         runC14,
		Real:        []string{"syncx/pipe/line, mline, async (RunnerQ: AsyncCall/AsyncDelegate/AsyncProc, ProcChan), pipe/q, async.Q, pipe.NormalizeSlotIndex (simgen-transformed)", "reflect (AsyncCall)", "ulog/zap (silenced)"},
		Stubs:       []string{"sync (simsync)", "context.Context (hx.SimCtx)", "goroutine scheduling and select choice (simrt)"},
		Rule: "scenario = executor kind x lanes {1,2,3,5} x queue size {1,2,8} x 2-5 callers x 1-4 calls (hash incl. negative, MaxInt, MinInt; ctx background / pre-cancelled / cancelled by a canceller task; callee yields 0-2 times, may fail) (about 1 in 300, thorough 1 in 60: one lane kept busy by a first call with 70-270 callers queueing behind it) x Stop placement (stopper task after k yields, or at the end) x Run placement (before the first call, or by a starter task after k yields: calls and Stop may precede Run) x scheduler knobs/tape incl. select order; " +
			"non-trivial = >=2 tasks and >=1 switch; distinct = distinct event-log hash",
		Probes: []string{"call-observed-accepted", "stop-mid-run", "late-run", "run-after-stop", "refused-full", "caller-got-ctx-error", "ctx-ended", "backlog-of-more-than-64-callers"},
		Assumptions: []string{"'accepted before' is known only when the earlier call was observed blocked waiting for its result (or had returned) before the later one was invoked",
			"order across lanes of the multi-line executor is checked for equal hashes only (equal hash => same lane)"},
	})
}
