package lanes

import (
	"context"
	"errors"
	"fmt"
	"math"
	"strconv"
	"strings"
	"testing"

	"github.com/pinealctx/neptune/syncx/pipe/mux"
	"pgregory.net/rapid"
	"verif.local/harness/hx"
	"verif.local/simrt"
)

// C15: mux worker group — per-key serial application in acceptance order, cache coherent with the
// store under injected store failures, delete uncaches, add on a cached key is refused untouched.

type muxOp struct {
	Op      string `json:"op"` // get add update delete updoradd upsertload upsertrenew
	Key     int    `json:"key"`
	Ver     int    `json:"ver"` // the value this operation writes (unique)
	Ctx     string `json:"ctx"` // bg | pre | later
	CancelK int    `json:"cancel_k"`
	Audit   bool   `json:"audit"` // sequential runs: audit this key right after the operation
}

type C15Scenario struct {
	Knobs   hx.SimKnobs `json:"knobs"`
	Workers int         `json:"workers"`
	Deep    int         `json:"deep"`
	LRUCap  int64       `json:"lru_cap"`   // 0: map facade; >0: LRU facade of that capacity
	Gen     bool        `json:"cache_gen"` // the group is built with NewWorkGrp and a cache generator instead of the two convenience constructors
	Callers [][]muxOp   `json:"callers"`
	// fault plan: callback kind -> 1-based invocation numbers that fail (atomically, without effect)
	Faults   map[string][]int `json:"faults"`
	CbYields int              `json:"cb_yields"` // yields inside store callbacks
	Sized    bool             `json:"sized"`     // stored values report sizes of their own to the LRU facade (some exceed its capacity)
	KeyKind  int              `json:"key_kind"`  // which of the package's key types carries the keys (0 Int, 1 Int64, 2 UInt64, 3 IntCRC, 4 Int64CRC, 5 UInt64CRC, 6 String)
}

// mkKey / keyOf: the drawn integer key as one of the package's own key types, and back (both injective on the drawn keys).
func mkKey(kind, k int) mux.Hashed2Int {
	switch kind {
	case 1:
		return mux.Int64(int64(k))
	case 2:
		return mux.UInt64(uint64(k))
	case 3:
		return mux.IntCRC(k)
	case 4:
		return mux.Int64CRC(int64(k))
	case 5:
		return mux.UInt64CRC(uint64(k))
	case 6:
		return mux.String(strconv.Itoa(k))
	}
	return mux.Int(k)
}

func keyOf(d interface{}) int {
	switch v := d.(type) {
	case mux.Int:
		return int(v)
	case mux.Int64:
		return int(v)
	case mux.UInt64:
		return int(v)
	case mux.IntCRC:
		return int(v)
	case mux.Int64CRC:
		return int(v)
	case mux.UInt64CRC:
		return int(v)
	case mux.String:
		n, _ := strconv.Atoi(string(v))
		return n
	}
	panic(fmt.Sprintf("store callback got a key of type %T", d))
}

var muxKeys = []int{0, 1, 2, -1, 7, math.MinInt}

func drawC15(rt *rapid.T) interface{} {
	sc := &C15Scenario{Faults: map[string][]int{}}
	sc.Workers = rapid.SampledFrom([]int{1, 2, 3}).Draw(rt, "workers")
	sc.Deep = rapid.SampledFrom([]int{2, 8, 64}).Draw(rt, "deep")
	sc.LRUCap = rapid.SampledFrom([]int64{0, 0, 1, 2, 3}).Draw(rt, "lrucap")
	sc.Gen = rapid.IntRange(0, 3).Draw(rt, "cachegen") == 0
	sc.KeyKind = rapid.SampledFrom([]int{0, 0, 0, 1, 2, 3, 4, 5, 6}).Draw(rt, "keykind")
	sc.CbYields = rapid.IntRange(0, 2).Draw(rt, "cby")
	sc.Sized = rapid.Bool().Draw(rt, "sized")
	nk := rapid.IntRange(1, 4).Draw(rt, "nkeys")
	var keys []int
	for i := 0; i < nk; i++ {
		keys = append(keys, rapid.SampledFrom(muxKeys).Draw(rt, "keyval"))
	}
	nc := rapid.IntRange(1, 5).Draw(rt, "ncallers")
	maxOps := 5
	if nc == 1 {
		maxOps = hx.Pick(30, 80)
	}
	ver := 1
	for i := 0; i < nc; i++ {
		n := rapid.IntRange(1, maxOps).Draw(rt, "nops")
		var ops []muxOp
		for j := 0; j < n; j++ {
			op := muxOp{Ver: ver}
			ver++
			op.Op = rapid.SampledFrom([]string{"get", "get", "add", "add", "update", "delete", "updoradd", "upsertload", "upsertrenew"}).Draw(rt, "op")
			op.Key = rapid.SampledFrom(keys).Draw(rt, "key")
			op.Ctx = rapid.SampledFrom([]string{"bg", "bg", "bg", "bg", "pre", "later"}).Draw(rt, "ctx")
			if nc == 1 {
				op.Ctx = "bg"
			}
			op.CancelK = rapid.IntRange(0, 6).Draw(rt, "cancelk")
			op.Audit = rapid.IntRange(0, 2).Draw(rt, "audit") == 0
			ops = append(ops, op)
		}
		sc.Callers = append(sc.Callers, ops)
	}
	for _, kind := range []string{"load", "add", "update", "upsert", "delete"} {
		nf := rapid.IntRange(0, 2).Draw(rt, "nfaults")
		for i := 0; i < nf; i++ {
			sc.Faults[kind] = append(sc.Faults[kind], rapid.IntRange(1, 6).Draw(rt, "faultat"))
		}
	}
	sc.Knobs = hx.DrawKnobs(rt, nil)
	return sc
}

type storeVal struct{ Key, Ver int }

// sizedVals makes stored values report their own size to the LRU facade (cache.Value): version v weighs
// valSizes[v % len]; some are larger than any LRU capacity drawn, so "can never stay cached" paths run.
var sizedVals bool
var valSizes = []int{1, 1, 2, 5, 1, 9}

func (v storeVal) Size() int {
	if !sizedVals {
		return 1
	}
	return valSizes[v.Ver%len(valSizes)]
}

var (
	errStoreNotFound = errors.New("store: not found")
	errStoreDup      = errors.New("store: duplicate")
	errInjectedStore = errors.New("store: injected failure")
)

type muxRec struct {
	op         muxOp
	task       *simrt.Task
	invokeEv   int64
	acceptedEv int64
	firstCbEv  int64
	inflight   bool
	ctx        *hx.SimCtx
}

type muxStore struct {
	s      *simrt.Sim
	data   map[int]int // key -> version
	calls  map[string]int
	faults map[string]map[int]bool
	busy   map[int]string // key -> callback running on it
	yields int
	ev     *int64
	cur    map[*simrt.Task]*muxRec // worker task -> record being handled (set on first callback)
	recs   *[]*muxRec
	byVer  map[int]*muxRec
}

// enter marks a callback invocation; returns false when the fault plan makes it fail.
func (st *muxStore) enter(kind string, key int, rec *muxRec) (ok bool, leave func()) {
	s := st.s
	st.calls[kind]++
	n := st.calls[kind]
	*st.ev++
	if rec != nil && rec.firstCbEv == 0 {
		rec.firstCbEv = *st.ev
		// acceptance order: every operation on this key known to be accepted before this one was invoked has already reached the store
		for _, a := range *st.recs {
			if a == rec || a.op.Key != key || a.acceptedEv == 0 || a.acceptedEv >= rec.invokeEv || a.firstCbEv != 0 {
				continue
			}
			if a.op.Op == "get" || a.op.Op == "add" {
				continue // may be answered from the cache without any callback
			}
			s.Fail("store-order", "key %d: operation v%d reached the store before operation v%d, which had been accepted before v%d was even invoked", key, rec.op.Ver, a.op.Ver, rec.op.Ver)
		}
	}
	if other, b := st.busy[key]; b {
		s.Fail("store-callbacks-overlap", "key %d: %s callback entered while %s callback is still running for the same key", key, kind, other)
	}
	st.busy[key] = kind
	for i := 0; i < st.yields; i++ {
		simrt.Yield()
	}
	leave = func() { delete(st.busy, key) }
	if st.faults[kind][n] {
		s.Count("store-fault-" + kind)
		s.Logf("store %s key=%d #%d -> injected failure", kind, key, n)
		return false, leave
	}
	return true, leave
}

func runC15(t *testing.T, sci interface{}, keepLog bool) *hx.Outcome {
	sc := sci.(*C15Scenario)
	var ev int64
	var recs []*muxRec
	started := false
	observe := func(s *simrt.Sim) {
		if !started {
			return
		}
		for _, r := range recs {
			if r.inflight && r.acceptedEv == 0 && r.task.State() == simrt.Native {
				r.acceptedEv = ev
				s.Count("op-observed-accepted")
			}
		}
	}

	sizedVals = sc.Sized
	main := func(s *simrt.Sim) {
		st := &muxStore{s: s, data: map[int]int{}, calls: map[string]int{}, faults: map[string]map[int]bool{}, busy: map[int]string{},
			yields: sc.CbYields, ev: &ev, recs: &recs, byVer: map[int]*muxRec{}}
		for k, l := range sc.Faults {
			st.faults[k] = map[int]bool{}
			for _, n := range l {
				st.faults[k][n] = true
			}
		}
		var g *mux.WorkerGrp
		if sc.Gen {
			g = mux.NewWorkGrp(func() mux.CacheFacade {
				if sc.LRUCap > 0 {
					return mux.NewFacadeLRU(sc.LRUCap)
				}
				return mux.NewFacadeMap()
			}, mux.WithSize(sc.Workers), mux.WithDeep(sc.Deep))
			s.Count("group-built-with-cache-generator")
		} else if sc.LRUCap > 0 {
			g = mux.NewWorkGrpWithLRU(sc.LRUCap, mux.WithSize(sc.Workers), mux.WithDeep(sc.Deep))
		} else {
			g = mux.NewWorkGrpWithMapCache(mux.WithSize(sc.Workers), mux.WithDeep(sc.Deep))
		}
		g.Start()
		started = true

		// store callbacks. data of write operations is a storeVal carrying key and version.
		recOf := func(d interface{}) *muxRec {
			if v, ok := d.(storeVal); ok {
				return st.byVer[v.Ver]
			}
			return nil
		}
		mkLoad := func(rec *muxRec, consulted *bool) mux.RenewDataFn {
			return func(ctx context.Context, d interface{}) (interface{}, error) {
				k := keyOf(d)
				if consulted != nil {
					*consulted = true
				}
				ok, leave := st.enter("load", k, rec)
				defer leave()
				if !ok {
					return nil, errInjectedStore
				}
				v, has := st.data[k]
				if !has {
					return nil, errStoreNotFound
				}
				return storeVal{k, v}, nil
			}
		}
		addFn := func(ctx context.Context, d interface{}) (interface{}, error) {
			v := d.(storeVal)
			ok, leave := st.enter("add", v.Key, recOf(d))
			defer leave()
			if !ok {
				return nil, errInjectedStore
			}
			if _, has := st.data[v.Key]; has {
				return nil, errStoreDup
			}
			st.data[v.Key] = v.Ver
			return v, nil
		}
		updFn := func(ctx context.Context, d interface{}, pre interface{}) (interface{}, error) {
			v := d.(storeVal)
			ok, leave := st.enter("update", v.Key, recOf(d))
			defer leave()
			if !ok {
				return nil, errInjectedStore
			}
			cur, has := st.data[v.Key]
			if !has {
				return nil, errStoreNotFound
			}
			if p, isVal := pre.(storeVal); isVal && p.Ver != cur {
				s.Fail("stale-value-handed-to-update", "key %d: update was given previous value v%d, the store holds v%d", v.Key, p.Ver, cur)
			}
			st.data[v.Key] = v.Ver
			return v, nil
		}
		upsertFn := func(ctx context.Context, d interface{}, pre interface{}) (interface{}, error) {
			v := d.(storeVal)
			ok, leave := st.enter("upsert", v.Key, recOf(d))
			defer leave()
			if !ok {
				return nil, errInjectedStore
			}
			if p, isVal := pre.(storeVal); isVal {
				if cur, has := st.data[v.Key]; !has || p.Ver != cur {
					s.Fail("stale-value-handed-to-update", "key %d: upsert was given previous value v%d which the store does not hold", v.Key, p.Ver)
				}
			}
			st.data[v.Key] = v.Ver
			return v, nil
		}
		mkDelete := func(rec *muxRec) mux.DeleteFn {
			return func(ctx context.Context, d interface{}) error {
				k := keyOf(d)
				ok, leave := st.enter("delete", k, rec)
				defer leave()
				if !ok {
					return errInjectedStore
				}
				delete(st.data, k)
				return nil
			}
		}
		isNotFound := func(err error) bool { return err == errStoreNotFound }

		// audit: whatever the cache holds for k equals the store
		audit := func(k int, why string) {
			consulted := false
			v, err := g.DoGet(hx.NewCtx("audit"), mkLoad(nil, &consulted), mkKey(sc.KeyKind, k))
			s.Logf("audit(%s) key=%d -> %v %v consulted=%v store=%v", why, k, v, err, consulted, st.data[k])
			if consulted {
				s.Count("audit-uncached")
				return
			}
			s.Count("audit-cached")
			cur, has := st.data[k]
			sv, isVal := v.(storeVal)
			if err != nil || !isVal || !has || sv.Ver != cur || sv.Key != k {
				s.Fail("cache-incoherent", "key %d: the cache answered %v (err %v) without consulting the store, the store holds %s", k, v, err, verStr(cur, has))
			}
		}

		sequential := len(sc.Callers) == 1
		var callers []*simrt.Task
		for ci, ops := range sc.Callers {
			ci, ops := ci, ops
			callers = append(callers, simrt.GoNamed(fmt.Sprintf("caller%d", ci), func() {
				me := simrt.Cur()
				lastGetOK := map[int]bool{} // sequential: the previous operation on the key was a successful get (key certainly cached)
				for _, op := range ops {
					cx := hx.NewCtx(fmt.Sprintf("op%d", op.Ver))
					switch op.Ctx {
					case "pre":
						cx.Cancel()
					case "later":
						k := op.CancelK
						simrt.GoNamed(fmt.Sprintf("canceller%d", op.Ver), func() {
							for i := 0; i < k; i++ {
								simrt.Yield()
							}
							cx.Cancel()
						})
					}
					rec := &muxRec{op: op, task: me, ctx: cx}
					recs = append(recs, rec)
					st.byVer[op.Ver] = rec
					data := storeVal{op.Key, op.Ver}
					key := mkKey(sc.KeyKind, op.Key)
					consulted := false
					addsBefore := st.calls["add"]
					ev++
					rec.invokeEv = ev
					rec.inflight = true
					me.EnterAPI(op.Op)
					var v interface{}
					var err error
					switch op.Op {
					case "get":
						v, err = g.DoGet(cx, mkLoad(rec, &consulted), key)
					case "add":
						v, err = g.DoAdd(cx, addFn, key, data)
					case "update":
						v, err = g.DoUpdate(cx, mkLoad(rec, nil), updFn, key, data)
					case "delete":
						v, err = g.DoDelete(cx, mkDelete(rec), key)
					case "updoradd":
						v, err = g.DoUpdOrAddIfNull(cx, mkLoad(rec, nil), updFn, addFn, isNotFound, key, data)
					case "upsertload":
						v, err = g.DoUpsertThenLoad(cx, upsertFn, mkLoad(rec, nil), key, data)
					case "upsertrenew":
						v, err = g.DoUpsertThenRenewInCache(cx, upsertFn, key, data)
					}
					me.ExitAPI()
					rec.inflight = false
					ev++
					if err == mux.ErrQFull || err == mux.ErrClosed {
						// refused, never queued
						rec.acceptedEv = 0
						s.Count("refused-full-or-closed")
						s.Logf("caller%d %s key=%d v%d -> refused %v", ci, op.Op, op.Key, op.Ver, err)
						if err == mux.ErrClosed {
							s.Fail("closed-before-stop", "operation v%d refused as closed although Stop had not been called", op.Ver)
						}
						simrt.Yield()
						continue
					}
					if rec.acceptedEv == 0 {
						rec.acceptedEv = ev
					}
					s.Logf("caller%d %s key=%d v%d ctx=%s -> %v %v", ci, op.Op, op.Key, op.Ver, op.Ctx, v, err)
					if err != nil && (errors.Is(err, context.Canceled) || errors.Is(err, context.DeadlineExceeded)) {
						if !cx.Ended() {
							s.Fail("foreign-context-error", "operation v%d got a context error although its own context is live", op.Ver)
						}
						simrt.Yield()
						continue
					}
					// results: a successful write returns the value it wrote (or, for upsert-then-load, the store's value)
					if err == nil {
						sv, isVal := v.(storeVal)
						switch op.Op {
						case "delete":
							if v != nil {
								s.Fail("wrong-result", "delete returned %v", v)
							}
						case "get", "upsertload":
							if !isVal || sv.Key != op.Key {
								s.Fail("wrong-result", "%s of key %d returned %v", op.Op, op.Key, v)
							}
						default:
							if !isVal || sv != data {
								s.Fail("wrong-result", "%s of key %d writing v%d returned %v", op.Op, op.Key, op.Ver, v)
							}
						}
					}
					if sequential {
						cur, has := st.data[op.Key]
						if op.Op == "get" && err == nil {
							if sv := v.(storeVal); !has || sv.Ver != cur {
								s.Fail("cache-incoherent", "key %d: Get returned v%d (store consulted: %v), the store holds %s", op.Key, sv.Ver, consulted, verStr(cur, has))
							}
						}
						if op.Op == "add" && err == mux.ErrDupKey && st.calls["add"] == addsBefore && !has {
							// refused as "already cached" without asking the store: the cache claims a value for a key the store does not hold
							s.Fail("cache-incoherent", "key %d: Add was refused as a duplicate of a cached entry without touching the store, but the store holds nothing for the key", op.Key)
						}
						if op.Op == "add" && lastGetOK[op.Key] {
							s.Count("add-on-cached-key")
							if err != mux.ErrDupKey || st.calls["add"] != addsBefore {
								s.Fail("add-on-cached-key-reached-store", "key %d is cached (the previous Get succeeded): Add returned %v and the store's add callback ran %d time(s); expected the duplicate error without touching the store", op.Key, err, st.calls["add"]-addsBefore)
							}
						}
						if op.Op == "delete" && err == nil {
							c2 := false
							_, e2 := g.DoGet(hx.NewCtx("probe"), mkLoad(nil, &c2), key)
							s.Logf("probe after delete key=%d consulted=%v err=%v", op.Key, c2, e2)
							if !c2 {
								s.Fail("deleted-key-still-cached", "key %d: Delete succeeded, yet the next Get was answered from the cache", op.Key)
							}
						}
						if sc.LRUCap > 0 {
							// an LRU facade may evict a key whenever another key is touched
							for k := range lastGetOK {
								if k != op.Key {
									lastGetOK[k] = false
								}
							}
						}
						lastGetOK[op.Key] = op.Op == "get" && err == nil
						if lastGetOK[op.Key] && sc.LRUCap > 0 {
							// a value larger than the whole LRU capacity is evicted by its own insertion: not cached
							if sv, ok := v.(storeVal); ok && int64(sv.Size()) > sc.LRUCap {
								lastGetOK[op.Key] = false
							}
						}
						if op.Audit {
							audit(op.Key, "after-op")
							lastGetOK[op.Key] = false
						}
					}
					simrt.Yield()
				}
			}))
		}
		hx.WaitDone(s, callers...)
		// cancellers may still run; wait until the workers are idle: every accepted operation was handled
		s.Block(simrt.Cur(), func() bool {
			for _, tk := range s.Tasks() {
				if strings.HasPrefix(tk.Name, "go@") && !tk.Blocked() && tk.State() != simrt.Done {
					return false
				}
			}
			return len(st.busy) == 0
		}, "harness:workers-idle")
		seenKey := map[int]bool{}
		for _, ops := range sc.Callers {
			for _, op := range ops {
				if !seenKey[op.Key] {
					seenKey[op.Key] = true
					audit(op.Key, "final")
				}
			}
		}
		g.Stop()
		if err := g.WaitStop(hx.NewCtx("waitstop")); err != nil {
			s.Fail("waitstop-error", "WaitStop returned %v", err)
		}
		for _, tk := range s.Tasks() {
			if strings.HasPrefix(tk.Name, "go@") && tk.State() != simrt.Done {
				s.Fail("worker-goroutine-alive", "worker goroutine %d still alive after Stop and WaitStop", tk.Idx)
			}
		}
	}

	res := hx.RunSim(t, sc.Knobs.Config(keepLog, 80000), func(s *simrt.Sim) { s.OnQuiescent = observe }, main)
	o := hx.FromResult(res)
	if o.Class == "" && res.Stuck {
		o.Class, o.Msg = "stuck", "callers or workers never finished: "+hx.Unfinished(res)
	}
	if o.Class == "panic" && strings.Contains(o.Msg, "index out of range") {
		o.Class = "worker-index-out-of-range"
	}
	if len(sc.Callers) == 1 {
		o.Nontrivial = len(sc.Callers[0]) >= 3
	}
	return o
}

func verStr(v int, has bool) string {
	if !has {
		return "nothing"
	}
	return fmt.Sprintf("v%d", v)
}

func TestC15(t *testing.T) {
	hx.Main(t, hx.Prop{
		ID:          "C15",
		Draw:        drawC15,
		NewScenario: func() interface{} { return &C15Scenario{} },
		Run:         runC15,
		Real:        []string{"syncx/pipe/mux (WorkerGrp, Worker, Q, FacadeMap, FacadeLRU, hasher; simgen-transformed)", "cache.Map, cache.LRUCache (simgen-transformed)"},
		Stubs:       []string{"backing store (harness map with per-key busy markers and a fault plan per callback kind)", "sync (simsync)", "context.Context (hx.SimCtx)", "goroutine scheduling and select choice (simrt)"},
		Rule: "scenario = worker count {1,2,3} x queue depth x cache facade (map | LRU capacity 1-3) x 1-5 callers x get/add/update/delete/update-or-add/upsert-then-load/upsert-then-renew over 1-4 keys (incl. negative and MinInt hashes) x per-callback failure plan (load/add/update/upsert/delete fail at drawn invocation numbers) x context cancellation x scheduler knobs/tape; " +
			"1 caller with up to 30 ops = sequential fault-sequence statement with per-operation audits; non-trivial = >=2 tasks and >=1 switch (or >=3 ops); distinct = distinct event-log hash",
		Probes:      []string{"group-built-with-cache-generator", "op-observed-accepted", "audit-cached", "audit-uncached", "add-on-cached-key", "refused-full-or-closed", "store-fault-load", "store-fault-add", "store-fault-update", "store-fault-upsert", "store-fault-delete"},
		Assumptions: []string{"store callbacks fail atomically (no partial effect)", "coherence is audited when no operation on the key is in flight (after each operation of single-caller runs; at the end of concurrent runs once the workers are idle)"},
	})
}
