// Package locks holds the harnesses for C01 (semaphore map) and C02 (key lockers).
package locks

import (
	"context"
	"fmt"
	"sort"
	"testing"
	"time"

	"github.com/pinealctx/neptune/syncx/semap"
	"pgregory.net/rapid"
	"verif.local/harness/hx"
	"verif.local/simrt"
)

type semRound struct {
	Write   bool   `json:"write"`
	Key     int    `json:"key"`
	Ctx     string `json:"ctx"`      // bg | pre | later | deadline
	CancelK int    `json:"cancel_k"` // yields of the canceller before it cancels / deadline in ms
	Hold    int    `json:"hold"`     // yields while holding
}

type C01Scenario struct {
	Knobs   hx.SimKnobs  `json:"knobs"`
	Variant string       `json:"variant"` // single | wide | widex
	Prime   uint64       `json:"prime"`
	RW      int          `json:"rw_ratio"`
	Clients [][]semRound `json:"clients"`
	Crowd   int          `json:"crowd,omitempty"` // > 0: one writer and this many readers of one key, rwRatio 65-200
}

func drawC01(rt *rapid.T) interface{} {
	sc := &C01Scenario{}
	sc.Variant = rapid.SampledFrom([]string{"single", "single", "wide", "widex"}).Draw(rt, "variant")
	sc.Prime = rapid.SampledFrom([]uint64{1, 2, 3, 73}).Draw(rt, "prime")
	sc.RW = rapid.SampledFrom([]int{1, 2, 3, 10}).Draw(rt, "rw")
	nk := rapid.IntRange(1, 3).Draw(rt, "nkeys")
	keyBase := rapid.IntRange(0, 7).Draw(rt, "keybase") // which typed keys are in play (see hx.KeyOf)
	if hx.Rare(rt, hx.Pick(300, 60), "crowd") {
		// a crowd: more tokens and more queued readers than any batch size one might think of (one writer, 66-150 readers, one key)
		sc.RW = rapid.SampledFrom([]int{65, 100, 200}).Draw(rt, "crowdrw")
		sc.Crowd = rapid.SampledFrom([]int{66, 90, 150}).Draw(rt, "crowdn")
		sc.Clients = append(sc.Clients, []semRound{{Write: true, Key: keyBase, Ctx: "bg", Hold: 3}})
		for i := 0; i < sc.Crowd; i++ {
			sc.Clients = append(sc.Clients, []semRound{{Key: keyBase, Ctx: "bg", Hold: rapid.IntRange(0, 2).Draw(rt, "crowdhold")}})
		}
		sc.Knobs = hx.DrawKnobs(rt, nil)
		return sc
	}
	nc := rapid.IntRange(2, hx.Pick(6, 8)).Draw(rt, "nclients")
	for i := 0; i < nc; i++ {
		n := rapid.IntRange(1, hx.Pick(4, 7)).Draw(rt, "rounds")
		var rs []semRound
		for j := 0; j < n; j++ {
			r := semRound{}
			r.Write = rapid.IntRange(0, 2).Draw(rt, "w") == 0
			r.Key = keyBase + rapid.IntRange(0, nk-1).Draw(rt, "key")
			r.Ctx = rapid.SampledFrom([]string{"bg", "bg", "bg", "pre", "later", "later", "deadline"}).Draw(rt, "ctx")
			r.CancelK = rapid.IntRange(0, 6).Draw(rt, "cancelk")
			r.Hold = rapid.IntRange(0, 3).Draw(rt, "hold")
			rs = append(rs, r)
		}
		sc.Clients = append(sc.Clients, rs)
	}
	sc.Knobs = hx.DrawKnobs(rt, nil)
	return sc
}

type semWaiter struct {
	task    *simrt.Task
	key     int
	weight  int
	ctx     *hx.SimCtx
	invoke  int64 // event index of the Acquire invocation
	seenAt  int64 // observation index at which it was first seen blocked (0 = never)
	seenEv  int64 // harness event counter at that observation
	granted int64 // event index at which Acquire returned nil (0 = not yet)
	active  bool  // inside Acquire
}

type semKey struct {
	readers, writers int
	held             int // tokens held by harness holders (after a successful return, before release)
}

type c01State struct {
	m       semap.SemMapper
	rw      int
	keys    map[int]*semKey
	waiters []*semWaiter // one per in-flight or held acquisition
	ev      int64
	obs     int64
	// releasing: per key, the callers that are inside Release right now
	releasing map[int]int
}

func (st *c01State) key(k int) *semKey {
	x := st.keys[k]
	if x == nil {
		x = &semKey{}
		st.keys[k] = x
	}
	return x
}

func runC01(t *testing.T, sci interface{}, keepLog bool) *hx.Outcome {
	sc := sci.(*C01Scenario)
	st := &c01State{rw: sc.RW, keys: map[int]*semKey{}}

	observe := func(s *simrt.Sim) {
		if st.m == nil || !s.APIQuiescent() {
			return
		}
		st.obs++
		// arrival stamps
		for _, w := range st.waiters {
			if w.active && w.seenAt == 0 && w.task.Blocked() && !w.ctx.Ended() {
				w.seenAt = st.obs
				w.seenEv = st.ev
				s.Count("acquirer-observed-blocked")
			}
		}
		var keyIdx []int
		for k := range st.keys {
			keyIdx = append(keyIdx, k)
		}
		sort.Ints(keyIdx) // fixed order: which violation is reported first must not depend on map iteration
		for _, k := range keyIdx {
			ks := st.keys[k]
			held, nw, present := semap.VerifKeyState(st.m, hx.KeyOf(k))
			var blocked []*semWaiter
			for _, w := range st.waiters {
				if w.active && w.key == k && w.task.Blocked() {
					blocked = append(blocked, w)
				}
			}
			// (H) tokens held in the container = tokens of the callers that hold
			if !present && ks.held > 0 {
				s.Fail("entry-deleted-while-held", "key %d: callers still hold %d token(s) but the container has dropped the key's entry (the next arrival gets a fresh semaphore beside them)", k, ks.held)
				return
			}
			if held != ks.held {
				s.Fail("held-tokens-mismatch", "key %d: container says %d tokens held, callers that acquired and have not released hold %d (a failed acquire kept tokens, or a release lost them)", k, held, ks.held)
				return
			}
			// every blocked caller must be queued; an implementation may keep cancelled waiters around for a while (lazy removal),
			// so more queued than blocked is not judged here (a leftover shows up as residue once the key is idle)
			if nw < len(blocked) {
				s.Fail("waiter-count-mismatch", "key %d: container queues %d waiter(s) but %d caller(s) are blocked in Acquire", k, nw, len(blocked))
				return
			}
			// (I) residue
			if present && ks.held == 0 && len(blocked) == 0 {
				s.Fail("residue-entry", "key %d: nobody holds and nobody waits, yet the container keeps an entry", k)
				return
			}
			if len(blocked) == 0 {
				continue
			}
			// (G) hand-off: the head waiter must not fit into the free tokens
			free := st.rw - ks.held
			var minSeen int64 = 1 << 62
			for _, w := range blocked {
				if w.seenAt < minSeen {
					minSeen = w.seenAt
				}
			}
			allFit := true
			for _, w := range blocked {
				if w.seenAt == minSeen && w.weight > free {
					allFit = false
				}
			}
			if allFit {
				s.Fail("waiter-fits-but-blocked", "key %d: %d token(s) free and the head waiter fits, yet it stays blocked (lost hand-off)", k, free)
				return
			}
			// (F) FIFO: nobody that invoked Acquire after a waiter was seen blocked may hold while that waiter still waits
			for _, a := range blocked {
				if a.seenAt == 0 || a.ctx.Ended() {
					continue
				}
				for _, b := range st.waiters {
					if b.key == k && b.granted != 0 && b.invoke > a.invokeSeenEvent() {
						s.Fail("fifo-overtaken", "key %d: a caller that arrived later (event %d) was admitted while an earlier waiter (blocked since observation %d) still waits", k, b.invoke, a.seenAt)
						return
					}
				}
			}
		}
	}

	main := func(s *simrt.Sim) {
		switch sc.Variant {
		case "single":
			st.m = semap.NewSemMap(semap.WithRwRatio(sc.RW))
		case "wide":
			st.m = semap.NewWideSemMap(semap.WithRwRatio(sc.RW), semap.WithPrime(sc.Prime))
		default:
			st.m = semap.NewWideXHashSemMap(semap.WithRwRatio(sc.RW), semap.WithPrime(sc.Prime))
		}
		var ts []*simrt.Task
		for ci, rounds := range sc.Clients {
			ci, rounds := ci, rounds
			ts = append(ts, simrt.GoNamed(fmt.Sprintf("client%d", ci), func() {
				me := simrt.Cur()
				for ri, r := range rounds {
					cx := hx.NewCtx(fmt.Sprintf("c%dr%d", ci, ri))
					switch r.Ctx {
					case "pre":
						cx.Cancel()
					case "later":
						k := r.CancelK
						simrt.GoNamed(fmt.Sprintf("canceller%d.%d", ci, ri), func() {
							for i := 0; i < k; i++ {
								simrt.Yield()
							}
							cx.Cancel()
						})
					case "deadline":
						cx.WithSimDeadline(s, time.Duration(r.CancelK+1)*time.Millisecond)
					}
					weight := 1
					if r.Write {
						weight = sc.RW
					}
					w := &semWaiter{task: me, key: r.Key, weight: weight, ctx: cx, active: true}
					st.ev++
					w.invoke = st.ev
					st.waiters = append(st.waiters, w)
					me.EnterAPI("Acquire")
					var sem *semap.Weighted
					var err error
					if r.Write {
						sem, err = st.m.AcquireWrite(cx, hx.KeyOf(r.Key))
					} else {
						sem, err = st.m.AcquireRead(cx, hx.KeyOf(r.Key))
					}
					me.ExitAPI()
					w.active = false
					st.ev++
					s.Logf("c%d acquire key=%d w=%v ctx=%s -> %v", ci, r.Key, r.Write, r.Ctx, err)
					if err != nil {
						if !cx.Ended() {
							s.Fail("acquire-failed-with-live-context", "Acquire returned %v although its context had not ended", err)
						} else if err != context.Canceled && err != context.DeadlineExceeded {
							s.Fail("acquire-wrong-error", "Acquire returned %v, not its context's error", err)
						}
						s.Count("acquire-failed-ctx")
						st.remove(w)
						simrt.Yield()
						continue
					}
					if cx.Ended() {
						s.Count("acquire-succeeded-with-ended-ctx")
					}
					if w.seenAt != 0 {
						s.Count("acquire-granted-after-blocking")
					}
					w.granted = st.ev
					ks := st.key(r.Key)
					// (E) exclusion monitor
					if r.Write {
						if ks.readers != 0 || ks.writers != 0 {
							s.Fail("exclusion-writer-not-alone", "key %d: writer admitted beside %d reader(s) and %d writer(s)", r.Key, ks.readers, ks.writers)
						}
						ks.writers++
					} else {
						if ks.writers != 0 || ks.readers >= sc.RW {
							s.Fail("exclusion-reader-overflow", "key %d: reader admitted beside %d writer(s) and %d reader(s) (rwRatio %d)", r.Key, ks.writers, ks.readers, sc.RW)
						}
						ks.readers++
					}
					ks.held += weight
					for i := 0; i < r.Hold; i++ {
						simrt.Yield()
					}
					if r.Write {
						ks.writers--
					} else {
						ks.readers--
					}
					me.EnterAPI("Release")
					if st.releasing == nil {
						st.releasing = map[int]int{}
					}
					st.releasing[r.Key]++
					if r.Write {
						st.m.ReleaseWrite(hx.KeyOf(r.Key), sem)
					} else {
						st.m.ReleaseRead(hx.KeyOf(r.Key), sem)
					}
					st.releasing[r.Key]--
					me.ExitAPI()
					ks.held -= weight
					st.remove(w)
					s.Logf("c%d release key=%d w=%v", ci, r.Key, r.Write)
					simrt.Yield()
					// hand-off "at once": once Release has returned, every queued caller that fits has been admitted. Looked at after a
					// yield (the scheduler has then refreshed which tasks are blocked: a task woken natively a moment ago still looks
					// blocked to the task that woke it). The condition is an invariant of every instant, so the yield costs nothing. Judged only
					// when nothing is in transit on the key - nobody else is inside Release, no caller whose context has ended is on
					// its way out of Acquire, the container's queue consists of the blocked callers alone - and every one of them
					// fits into the free tokens: then whoever is the head fits.
					var held, nw int
					var present bool
					s.NoYield(func() { held, nw, present = semap.VerifKeyState(st.m, hx.KeyOf(r.Key)) })
					if present && !s.Failed() && st.releasing[r.Key] == 0 {
						nb, allFit := 0, true
						for _, x := range st.waiters {
							if x.active && x.key == r.Key && !x.task.Blocked() && x.ctx.Ended() {
								allFit = false // leaving after its context ended: it may still be queued, or about to re-notify
							}
							if x.active && x.key == r.Key && x.task.Blocked() && x.task.WaitDesc() != "mutex" {
								// (blocked on the container's mutex = not queued yet; whoever holds that mutex is in transit and is
								// either counted in the queue without being blocked, or changes nothing that matters here)
								nb++
								if x.weight > st.rw-held {
									allFit = false
								}
							}
						}
						if nb > 0 && nb == nw && allFit {
							detail := ""
							for _, x := range st.waiters {
								if x.key == r.Key {
									detail += fmt.Sprintf(" [%s weight=%d inAcquire=%v blocked=%v wait=%q ctxEnded=%v]", x.task.Name, x.weight, x.active, x.task.Blocked(), x.task.WaitDesc(), x.ctx.Ended())
								}
							}
							s.Fail("waiter-fits-but-blocked", "key %d: Release returned, %d of %d token(s) are held, and all %d queued caller(s) fit into the rest, yet they stay blocked (not admitted at once);%s", r.Key, held, st.rw, nb, detail)
						}
					}
				}
			}))
		}
		hx.WaitDone(s, ts...)
		if sc.Crowd > 0 {
			s.Count("crowd-of-more-than-64-readers")
		}
		if n := semap.VerifEntries(st.m); n != 0 {
			s.Fail("residue-entry", "every holder released and nobody waits, yet the container keeps %d entr(y/ies)", n)
		}
	}

	res := hx.RunSim(t, sc.Knobs.Config(keepLog, 60000+3000*sc.Crowd), func(s *simrt.Sim) { s.OnQuiescent = observe }, main)
	o := hx.FromResult(res)
	if o.Class == "" && res.Stuck {
		o.Class, o.Msg = "stuck", "callers never finished although every holder releases: "+hx.Unfinished(res)
	}
	return o
}

// invokeSeenEvent: the event index up to which later invocations are certainly "after this waiter
// was seen blocked": the waiter was first seen blocked at observation seenAt, which happened after
// its own invocation; any invocation event greater than the event counter at that observation is later.
func (w *semWaiter) invokeSeenEvent() int64 { return w.seenEv }

func (st *c01State) remove(w *semWaiter) {
	for i, x := range st.waiters {
		if x == w {
			st.waiters = append(st.waiters[:i], st.waiters[i+1:]...)
			return
		}
	}
}

func TestC01(t *testing.T) {
	hx.Main(t, hx.Prop{
		ID:          "C01",
		Draw:        drawC01,
		NewScenario: func() interface{} { return &C01Scenario{} },
		Run:         runC01,
		Real:        []string{"syncx/semap (SemMap, WideSemMap modulo and xxhash; simgen-transformed)", "remap", "container/list"},
		Stubs:       []string{"sync (simsync.Mutex)", "context.Context (hx.SimCtx: cancellation and deadline are simulator events)", "goroutine scheduling (simrt)", "select choice (simulator-ordered)"},
		Rule: "scenario = map variant x shard count x rwRatio x 2-6 clients x 1-4 rounds of Acquire{Read|Write}(ctx,key)/hold/Release with ctx in {background, pre-cancelled, cancelled by a canceller task, simulated deadline} (about 1 in 300, thorough 1 in 60: one writer and 66-150 readers of one key at rwRatio 65-200) x scheduler knobs/tape; " +
			"non-trivial = >=2 tasks and >=1 context switch; distinct = distinct event-log hash",
		Probes:      []string{"acquire-succeeded-with-ended-ctx", "acquire-failed-ctx", "acquire-granted-after-blocking", "acquirer-observed-blocked", "ctx-ended", "crowd-of-more-than-64-readers"},
		Assumptions: []string{"each client holds at most one key at a time (so the harness itself cannot deadlock)", "arrival order is observed at API-quiescent instants; simultaneous arrivals are not ordered by the oracle"},
	})
}
