package locks

import (
	"fmt"
	"sort"
	"testing"

	"github.com/pinealctx/neptune/remap"
	"github.com/pinealctx/neptune/syncx/keylock"
	"pgregory.net/rapid"
	"verif.local/harness/hx"
	"verif.local/simrt"
)

// C02: key lockers — RW exclusion per key, key independence, ordered multi-key locking never
// deadlocks and holds all keys, no per-key state is retained.

type klRound struct {
	Write bool  `json:"write"`
	Keys  []int `json:"keys"` // 1 key = Lock/RLock, >1 = Locks/RLocks (sorted, duplicate-free)
	Multi bool  `json:"multi"`
	Hold  int   `json:"hold"`
}

type C02Scenario struct {
	Knobs     hx.SimKnobs `json:"knobs"`
	Variant   string      `json:"variant"` // key | keygrp | keygrpx | t | tgrp | tgrpx
	Prime     uint64      `json:"prime"`
	Clients   [][]klRound `json:"clients"`
	HolderKey int         `json:"holder_key"` // -1: none; else a task holds this key behind a gate while the others (never touching it) must all finish
	HolderW   bool        `json:"holder_write"`
	NKeys     int         `json:"nkeys"`
	// HolderMass > 0: the gated holder read-locks its key this many times (as that many readers would); once everybody else is done a
	// prober read-locks and unlocks the key once and then asks for the write lock, which must wait for every one of the holds
	HolderMass int `json:"holder_mass,omitempty"`
}

// klAdapter hides the two interfaces.
type klAdapter struct {
	l  keylock.Locker
	tl keylock.TLocker[int]
}

func (a *klAdapter) lock(r klRound) {
	switch {
	case a.tl != nil && r.Multi && r.Write:
		a.tl.Locks(r.Keys)
	case a.tl != nil && r.Multi:
		a.tl.RLocks(r.Keys)
	case a.tl != nil && r.Write:
		a.tl.Lock(r.Keys[0])
	case a.tl != nil:
		a.tl.RLock(r.Keys[0])
	case r.Write:
		a.l.Lock(hx.KeyOf(r.Keys[0]))
	default:
		a.l.RLock(hx.KeyOf(r.Keys[0]))
	}
}

func (a *klAdapter) unlock(r klRound) {
	switch {
	case a.tl != nil && r.Multi && r.Write:
		a.tl.Unlocks(r.Keys)
	case a.tl != nil && r.Multi:
		a.tl.RUnlocks(r.Keys)
	case a.tl != nil && r.Write:
		a.tl.Unlock(r.Keys[0])
	case a.tl != nil:
		a.tl.RUnlock(r.Keys[0])
	case r.Write:
		a.l.Unlock(hx.KeyOf(r.Keys[0]))
	default:
		a.l.RUnlock(hx.KeyOf(r.Keys[0]))
	}
}

func (a *klAdapter) entries() int {
	if a.tl != nil {
		return keylock.VerifTEntries[int](a.tl)
	}
	return keylock.VerifEntries(a.l)
}

func (a *klAdapter) counts(k int) (int, int, bool) {
	if a.tl != nil {
		return keylock.VerifTKeyCounts[int](a.tl, k)
	}
	return keylock.VerifKeyCounts(a.l, hx.KeyOf(k))
}

func newKL(variant string, prime uint64) *klAdapter {
	switch variant {
	case "key":
		return &klAdapter{l: keylock.NewKeyLocker()}
	case "keygrp":
		return &klAdapter{l: keylock.NewKeyLockeGrp(remap.WithPrime(prime))}
	case "keygrpx":
		return &klAdapter{l: keylock.NewXHashKeyLockeGrp(remap.WithPrime(prime))}
	case "t":
		return &klAdapter{tl: keylock.NewTKeyLocker[int]()}
	case "tgrp":
		return &klAdapter{tl: keylock.NewTKeyLockeGrp[int](remap.WithPrime(prime))}
	case "tgrpx":
		return &klAdapter{tl: keylock.NewTXHashTKeyLockeGrp[int](remap.WithPrime(prime))}
	}
	panic("variant " + variant)
}

func drawC02(rt *rapid.T) interface{} {
	sc := &C02Scenario{}
	sc.Variant = rapid.SampledFrom([]string{"key", "keygrp", "keygrpx", "t", "t", "tgrp", "tgrp", "tgrpx"}).Draw(rt, "variant")
	sc.Prime = rapid.SampledFrom([]uint64{1, 2, 3, 7, 73}).Draw(rt, "prime")
	generic := sc.Variant[0] == 't'
	nk := rapid.IntRange(2, 5).Draw(rt, "nkeys")
	long := generic && rapid.IntRange(0, 3).Draw(rt, "longlists") == 0
	if long {
		// long multi-key lists with several keys per shard (sorting inside the locker only shows its colours beyond ~12 elements)
		nk = rapid.IntRange(14, 20).Draw(rt, "nkeys-long")
		sc.Prime = rapid.SampledFrom([]uint64{1, 2, 3, 7}).Draw(rt, "prime-long")
	}
	sc.NKeys = nk
	sc.HolderKey = -1
	if rapid.IntRange(0, 3).Draw(rt, "indep") == 0 {
		sc.HolderKey = rapid.IntRange(0, nk-1).Draw(rt, "holderkey")
		sc.HolderW = rapid.Bool().Draw(rt, "holderw")
		if rapid.IntRange(0, 19).Draw(rt, "mass") == 0 {
			// many simultaneous read holds of one key: per-key counters beyond the range of a byte
			sc.HolderW = false
			sc.HolderMass = rapid.SampledFrom([]int{200, 255, 256, 257, 300}).Draw(rt, "massn")
		}
	}
	var pool []int
	for k := 0; k < nk; k++ {
		if k != sc.HolderKey {
			pool = append(pool, k)
		}
	}
	nc := rapid.IntRange(2, hx.Pick(6, 8)).Draw(rt, "nclients")
	if long {
		nc = rapid.IntRange(2, 3).Draw(rt, "nclients-long")
	}
	for i := 0; i < nc; i++ {
		n := rapid.IntRange(1, hx.Pick(4, 7)).Draw(rt, "rounds")
		var rs []klRound
		for j := 0; j < n; j++ {
			r := klRound{}
			r.Write = rapid.IntRange(0, 2).Draw(rt, "w") != 0
			r.Hold = rapid.IntRange(0, 3).Draw(rt, "hold")
			if generic && rapid.IntRange(0, 1).Draw(rt, "multi") == 1 {
				r.Multi = true
				// a duplicate-free subset in ascending order (the global order)
				for _, k := range pool {
					if (long && rapid.IntRange(0, 4).Draw(rt, "in5") != 0) || (!long && rapid.Bool().Draw(rt, "in")) {
						r.Keys = append(r.Keys, k)
					}
				}
				// (an empty list is a duplicate-free list too: locking nothing must be a no-op)
				sort.Ints(r.Keys)
			} else {
				r.Keys = []int{rapid.SampledFrom(pool).Draw(rt, "key")}
			}
			rs = append(rs, r)
		}
		sc.Clients = append(sc.Clients, rs)
	}
	sc.Knobs = hx.DrawKnobs(rt, nil)
	if sc.HolderMass > 0 {
		// a 16-bit number of holds costs more than a million scheduling steps: about 1 in 2000 of the mass scenarios (1 in 250 in the
		// thorough tier), decided by a mix of values already drawn (rapid's own small ranges are heavily biased towards 0)
		h := uint64(sc.Knobs.Seed)*0x9e3779b97f4a7c15 + uint64(nc)*7919 + uint64(nk)*104729 + uint64(sc.HolderMass)
		h ^= h >> 31
		h *= 0xbf58476d1ce4e5b9
		h ^= h >> 29
		if h%uint64(hx.Pick(2000, 250)) == 0 {
			sc.HolderMass = 65535 + int(h>>40)%3
		}
	}
	return sc
}

type klAcq struct {
	task   *simrt.Task
	r      klRound
	active bool // inside lock()
	held   bool
	n      int // number of holds this record stands for (0 = 1)
	extra  int // a further hold of the same key that is being taken or given back right now (registered or not)
}

type c02State struct {
	a       *klAdapter
	readers map[int]int
	writers map[int]int
	acqs    []*klAcq
}

func runC02(t *testing.T, sci interface{}, keepLog bool) *hx.Outcome {
	sc := sci.(*C02Scenario)
	st := &c02State{readers: map[int]int{}, writers: map[int]int{}}
	gateOpen := false
	holderReady := false // the holder has taken all its holds

	observe := func(s *simrt.Sim) {
		if st.a == nil || !s.APIQuiescent() {
			return
		}
		// Every holder of a key must be registered in the locker's per-key state; nothing may be registered beyond the holders and
		// the callers blocked inside lock() on a list containing the key (an implementation may register a blocked multi-key
		// caller's later keys early or late: the property does not say); an entry without holder or waiter is residue.
		holdR, holdW, waitR, waitW := map[int]int{}, map[int]int{}, map[int]int{}, map[int]int{}
		for _, q := range st.acqs {
			blocked := q.active && q.task != nil && q.task.Blocked()
			if q.extra > 0 {
				for _, k := range q.r.Keys {
					waitR[k] += q.extra
				}
			}
			if !q.held && !blocked {
				continue
			}
			for _, k := range q.r.Keys {
				switch {
				case q.held && q.r.Write:
					holdW[k]++
				case q.held && q.n > 0:
					holdR[k] += q.n
				case q.held:
					holdR[k]++
				case q.r.Write:
					waitW[k]++
				default:
					waitR[k]++
				}
			}
		}
		// independence: a caller blocked inside lock() must be waiting for one of ITS keys: some listed key is held in a conflicting
		// mode, or somebody else is queued on it (writer preference / fairness). Blocked with none of that = blocked by unrelated keys.
		for _, q := range st.acqs {
			if !(q.active && q.task != nil && q.task.Blocked()) {
				continue
			}
			justified := false
			for _, k := range q.r.Keys {
				others := waitR[k] + waitW[k] - 1 // other blocked callers listing k
				if holdW[k] > 0 || (q.r.Write && holdR[k] > 0) || others > 0 {
					justified = true
					break
				}
			}
			if !justified {
				s.Fail("blocked-by-unrelated-key", "a caller is blocked locking keys %v (write=%v) although none of them is held in a conflicting mode or waited for by anyone else", q.r.Keys, q.r.Write)
				return
			}
		}
		nk := sc.NKeys
		if nk < 6 {
			nk = 6
		}
		for k := 0; k < nk; k++ {
			r, w, present := st.a.counts(k)
			if r < holdR[k] || w < holdW[k] {
				s.Fail("key-count-mismatch", "key %d: locker registers %d reader(s)/%d writer(s), but %d reader(s)/%d writer(s) hold it", k, r, w, holdR[k], holdW[k])
				return
			}
			if r > holdR[k]+waitR[k] || w > holdW[k]+waitW[k] {
				s.Fail("key-count-mismatch", "key %d: locker registers %d reader(s)/%d writer(s), more than the %d/%d that hold it plus the %d/%d blocked on it", k, r, w, holdR[k], holdW[k], waitR[k], waitW[k])
				return
			}
			if present && holdR[k]+holdW[k]+waitR[k]+waitW[k] == 0 {
				s.Fail("residue-entry", "key %d: nobody holds or waits, yet the locker keeps an entry", k)
				return
			}
		}
	}

	main := func(s *simrt.Sim) {
		st.a = newKL(sc.Variant, sc.Prime)
		var holder *simrt.Task
		if sc.HolderKey >= 0 {
			hr := klRound{Write: sc.HolderW, Keys: []int{sc.HolderKey}}
			hq := &klAcq{r: hr}
			st.acqs = append(st.acqs, hq)
			holder = simrt.GoNamed("holder", func() {
				me := simrt.Cur()
				hq.task = me
				hq.active = true
				me.EnterAPI("lock")
				st.a.lock(hr)
				me.ExitAPI()
				hq.active, hq.held = false, true
				if sc.HolderMass > 0 {
					hq.n = 1
				}
				for i := 1; i < sc.HolderMass; i++ {
					// one more read hold of the same key (no writer can be waiting: nobody else touches the key before the gate)
					me.EnterAPI("lock")
					hq.extra = 1
					st.a.lock(hr)
					hq.n, hq.extra = i+1, 0
					me.ExitAPI()
				}
				if sc.HolderMass > 0 {
					hq.n = sc.HolderMass
					st.readers[sc.HolderKey] += sc.HolderMass
					s.Count("mass-read-holds")
					if sc.HolderMass > 60000 {
						s.Count("mass-read-holds-16-bit")
					}
				}
				s.Logf("holder holds key %d", sc.HolderKey)
				holderReady = true
				s.Block(me, func() bool { return gateOpen }, "harness:gate")
				for i := sc.HolderMass; i > 1; i-- {
					me.EnterAPI("unlock")
					st.readers[sc.HolderKey]--
					hq.n, hq.extra = i-1, 1
					st.a.unlock(hr)
					hq.extra = 0
					me.ExitAPI()
				}
				me.EnterAPI("unlock")
				if sc.HolderMass > 0 {
					st.readers[sc.HolderKey]--
				}
				hq.held = false
				st.a.unlock(hr)
				me.ExitAPI()
			})
		}
		var ts []*simrt.Task
		for ci, rounds := range sc.Clients {
			ci, rounds := ci, rounds
			ts = append(ts, simrt.GoNamed(fmt.Sprintf("client%d", ci), func() {
				me := simrt.Cur()
				for _, r := range rounds {
					q := &klAcq{task: me, r: r, active: true}
					st.acqs = append(st.acqs, q)
					me.EnterAPI("lock")
					st.a.lock(r)
					me.ExitAPI()
					q.active, q.held = false, true
					s.Logf("c%d lock w=%v keys=%v", ci, r.Write, r.Keys)
					// monitor: all listed keys are held at once, writer alone, readers only with readers
					for _, k := range r.Keys {
						if r.Write {
							if st.readers[k] != 0 || st.writers[k] != 0 {
								s.Fail("exclusion-writer-not-alone", "key %d write-locked beside %d reader(s) and %d writer(s)", k, st.readers[k], st.writers[k])
							}
							st.writers[k]++
						} else {
							if st.writers[k] != 0 {
								s.Fail("exclusion-reader-with-writer", "key %d read-locked beside %d writer(s)", k, st.writers[k])
							}
							st.readers[k]++
						}
					}
					if len(r.Keys) > 1 {
						s.Count("multi-key-held")
					}
					if len(r.Keys) > 12 {
						s.Count("multi-key-list>12-held")
					}
					for i := 0; i < r.Hold; i++ {
						simrt.Yield()
					}
					for _, k := range r.Keys {
						if r.Write {
							st.writers[k]--
						} else {
							st.readers[k]--
						}
					}
					me.EnterAPI("unlock")
					st.a.unlock(r)
					me.ExitAPI()
					q.held = false
					st.removeAcq(q)
					s.Logf("c%d unlock w=%v keys=%v", ci, r.Write, r.Keys)
					simrt.Yield()
				}
			}))
		}
		// independence: everybody else must finish while the holder still holds its key
		hx.WaitDone(s, ts...)
		if holder != nil {
			s.Count("independence-scenario")
			var prober *simrt.Task
			if sc.HolderMass > 0 && !s.Failed() {
				// (a write request arriving while the holder is still adding read holds would, by writer preference, block them)
				s.Block(simrt.Cur(), func() bool { return holderReady }, "harness:holder-ready")
				k := sc.HolderKey
				prober = simrt.GoNamed("prober", func() {
					me := simrt.Cur()
					rr := klRound{Keys: []int{k}}
					q := &klAcq{task: me, r: rr, active: true}
					st.acqs = append(st.acqs, q)
					me.EnterAPI("lock")
					st.a.lock(rr)
					me.ExitAPI()
					q.active, q.held = false, true
					if st.writers[k] != 0 {
						s.Fail("exclusion-reader-with-writer", "key %d read-locked beside %d writer(s)", k, st.writers[k])
					}
					st.readers[k]++
					simrt.Yield()
					st.readers[k]--
					me.EnterAPI("unlock")
					q.held = false
					st.a.unlock(rr)
					me.ExitAPI()
					st.removeAcq(q)
					wr := klRound{Write: true, Keys: []int{k}}
					q = &klAcq{task: me, r: wr, active: true}
					st.acqs = append(st.acqs, q)
					me.EnterAPI("lock")
					st.a.lock(wr)
					me.ExitAPI()
					q.active, q.held = false, true
					if st.readers[k] != 0 || st.writers[k] != 0 {
						s.Fail("exclusion-writer-not-alone", "key %d write-locked beside %d reader(s) and %d writer(s)", k, st.readers[k], st.writers[k])
					}
					st.writers[k]++
					simrt.Yield()
					st.writers[k]--
					me.EnterAPI("unlock")
					q.held = false
					st.a.unlock(wr)
					me.ExitAPI()
					st.removeAcq(q)
				})
				hx.WaitBlockedOrDone(s, prober)
			}
			gateOpen = true
			hx.WaitDone(s, holder)
			if prober != nil {
				hx.WaitDone(s, prober)
			}
		}
		if n := st.a.entries(); n != 0 {
			s.Fail("residue-entry", "every lock was released, yet the locker keeps %d entr(y/ies)", n)
		}
	}

	res := hx.RunSim(t, sc.Knobs.Config(keepLog, 60000+40*sc.HolderMass), func(s *simrt.Sim) { s.OnQuiescent = observe }, main)
	o := hx.FromResult(res)
	if o.Class == "" && res.Stuck {
		if sc.HolderKey >= 0 && !gateOpen {
			o.Class, o.Msg = "blocked-by-unrelated-key", fmt.Sprintf("a task holds key %d; tasks that only touch other keys never finished: %s", sc.HolderKey, hx.Unfinished(res))
		} else {
			o.Class, o.Msg = "deadlock", "ordered, duplicate-free locking got stuck: "+hx.Unfinished(res)
		}
	}
	return o
}

func (st *c02State) removeAcq(q *klAcq) {
	for i, x := range st.acqs {
		if x == q {
			st.acqs = append(st.acqs[:i], st.acqs[i+1:]...)
			return
		}
	}
}

func TestC02(t *testing.T) {
	hx.Main(t, hx.Prop{
		ID:          "C02",
		Draw:        drawC02,
		NewScenario: func() interface{} { return &C02Scenario{} },
		Run:         runC02,
		Real:        []string{"syncx/keylock (KeyLocker, KeyLockerGrp, TKeyLocker[int], TKeyLockerGrp[int], modulo and xxhash; simgen-transformed)", "remap", "x/exp/slices"},
		Stubs:       []string{"sync (simsync.Mutex, simsync.RWMutex with Go's writer preference)", "goroutine scheduling (simrt)"},
		Rule: "scenario = locker variant x shard count x 2-6 clients x 1-4 rounds of Lock/RLock or ordered duplicate-free Locks/RLocks over 2-5 keys, optionally a gated holder of a key nobody else touches (independence; 1 in 20 of these: the holder takes 200-300 read holds of its key, rarely 65535-65537, and a prober then read-locks it once and asks for the write lock) x scheduler knobs/tape; " +
			"non-trivial = >=2 tasks and >=1 context switch; distinct = distinct event-log hash",
		Probes: []string{"multi-key-held", "independence-scenario", "mass-read-holds", "mass-read-holds-16-bit"},
		Assumptions: []string{"simsync.RWMutex reproduces Go's writer preference (a pending writer blocks new readers; readers queued behind it are admitted on Unlock before the next writer)",
			"each client holds one lock set at a time; multi-key lists are ascending and duplicate-free (the property's restriction)"},
	})
}
