// Package queues holds the harnesses for C12 (order/capacity/close, linearizability against list
// models) and C13 (no lost wake-ups) over the six queue types of the repository.
package queues

import (
	"context"
	"math"
	"time"

	"github.com/pinealctx/neptune/queue/priq"
	"github.com/pinealctx/neptune/queue/syncq"
	"github.com/pinealctx/neptune/syncx/pipe/async"
	"github.com/pinealctx/neptune/syncx/pipe/mq"
	"github.com/pinealctx/neptune/syncx/pipe/mux"
	"github.com/pinealctx/neptune/syncx/pipe/q"
)

// Result codes of queue operations.
const (
	OK     = "ok"
	Closed = "closed"
	Full   = "full"
	Empty  = "empty"
	Other  = "other"
)

// Kinds of queue under test.
const (
	KSyncQ = "syncq"
	KQ     = "pipe/q"
	KAsync = "pipe/async"
	KMux   = "pipe/mux"
	KMQ    = "pipe/mq"
	KPriQ  = "priq"
)

var CondKinds = []string{KSyncQ, KQ, KAsync, KMux, KMQ}

// Queue is the uniform face the harness drives.
type Queue interface {
	Add(v int) string
	AddPrior(v int) string
	AddCtrl(v int) string
	AddPriorCtrl(v int) string
	AddAnyway(v int) string     // blocking: retries with Sleep while full
	AddCtrlAnyway(v int) string // blocking (mq)
	Pop() (int, string)         // blocking
	PopAnyway() (int, string)   // blocking
	TryPop() (int, string)      // non-blocking (syncq, priq)
	Close()
	TryClose() bool
	TryClear() bool
	Len() int // -1 if the type has none
	Has(op string) bool
}

type base struct{}

func (base) AddPrior(int) string      { panic("unsupported") }
func (base) AddCtrl(int) string       { panic("unsupported") }
func (base) AddPriorCtrl(int) string  { panic("unsupported") }
func (base) AddAnyway(int) string     { panic("unsupported") }
func (base) AddCtrlAnyway(int) string { panic("unsupported") }
func (base) PopAnyway() (int, string) { panic("unsupported") }
func (base) TryPop() (int, string)    { panic("unsupported") }
func (base) TryClose() bool           { panic("unsupported") }
func (base) TryClear() bool           { panic("unsupported") }
func (base) Len() int                 { return -1 }
func (base) Close()                   { panic("unsupported") }

func val(v interface{}, err error, closed error, full ...error) (int, string) {
	if err == nil {
		i, ok := v.(int)
		if !ok {
			return -1, Other
		}
		return i, OK
	}
	if err == closed {
		return 0, Closed
	}
	for _, f := range full {
		if err == f {
			return 0, Full
		}
	}
	return 0, Other + ":" + err.Error()
}

func code(err error, closed error, full ...error) string {
	_, c := val(0, err, closed, full...)
	return c
}

// ---- syncq

type syncQ struct {
	base
	q *syncq.SyncQueue
}

func (a *syncQ) Add(v int) string { a.q.Push(v); return OK } // silently dropped when closed
func (a *syncQ) Pop() (int, string) {
	v := a.q.Pop()
	if v == nil {
		return 0, Closed
	}
	return v.(int), OK
}
func (a *syncQ) TryPop() (int, string) {
	v, ok := a.q.TryPop()
	if !ok {
		return 0, Empty
	}
	if v == nil {
		return 0, Closed
	}
	return v.(int), OK
}
func (a *syncQ) Close()   { a.q.Close() }
func (a *syncQ) Len() int { return a.q.Len() }
func (a *syncQ) Has(op string) bool {
	switch op {
	case "add", "pop", "trypop", "close", "len":
		return true
	}
	return false
}

// ---- pipe/q

type pipeQ struct {
	base
	q *q.Q
}

func (a *pipeQ) Add(v int) string      { return code(a.q.AddReq(v), q.ErrClosed, q.ErrReqQFull) }
func (a *pipeQ) AddPrior(v int) string { return code(a.q.AddPriorReq(v), q.ErrClosed, q.ErrReqQFull) }
func (a *pipeQ) AddAnyway(v int) string {
	return code(a.q.AddReqAnyway(v, time.Millisecond), q.ErrClosed, q.ErrReqQFull)
}
func (a *pipeQ) Pop() (int, string)       { v, e := a.q.Pop(); return val(v, e, q.ErrClosed) }
func (a *pipeQ) PopAnyway() (int, string) { v, e := a.q.PopAnyway(); return val(v, e, q.ErrClosed) }
func (a *pipeQ) Close()                   { a.q.Close() }
func (a *pipeQ) Has(op string) bool {
	switch op {
	case "add", "addprior", "addanyway", "pop", "popanyway", "close":
		return true
	}
	return false
}

// ---- pipe/async

type asyncQ struct {
	base
	q *async.Q
}

func (a *asyncQ) Add(v int) string      { return code(a.q.Add(v), async.ErrClosed, async.ErrFull) }
func (a *asyncQ) AddPrior(v int) string { return code(a.q.AddPrior(v), async.ErrClosed, async.ErrFull) }
func (a *asyncQ) Pop() (int, string)    { v, e := a.q.Pop(); return val(v, e, async.ErrClosed) }
func (a *asyncQ) PopAnyway() (int, string) {
	v, e := a.q.PopAnyway()
	return val(v, e, async.ErrClosed)
}
func (a *asyncQ) Close() { a.q.Close() }
func (a *asyncQ) Has(op string) bool {
	switch op {
	case "add", "addprior", "addanyway", "pop", "popanyway", "close":
		return true
	}
	return false
}

// ---- pipe/mux

type muxQ struct {
	base
	q *mux.Q
}

func (a *muxQ) Add(v int) string      { return code(a.q.AddReq(v), mux.ErrClosed, mux.ErrQFull) }
func (a *muxQ) AddPrior(v int) string { return code(a.q.AddPriorReq(v), mux.ErrClosed, mux.ErrQFull) }
func (a *muxQ) AddAnyway(v int) string {
	return code(a.q.AddReqAnyway(v, time.Millisecond), mux.ErrClosed, mux.ErrQFull)
}
func (a *muxQ) Pop() (int, string)       { v, e := a.q.Pop(); return val(v, e, mux.ErrClosed) }
func (a *muxQ) PopAnyway() (int, string) { v, e := a.q.PopAnyway(); return val(v, e, mux.ErrClosed) }
func (a *muxQ) Close()                   { a.q.Close() }
func (a *muxQ) Has(op string) bool {
	switch op {
	case "add", "addprior", "addanyway", "pop", "popanyway", "close":
		return true
	}
	return false
}

// ---- pipe/mq

type mQ struct {
	base
	q *mq.MQ
}

func (a *mQ) Add(v int) string {
	return code(a.q.AddReq(v), mq.ErrClosed, mq.ErrReqQFull, mq.ErrCtrlQFull)
}
func (a *mQ) AddPrior(v int) string {
	return code(a.q.AddPriorReq(v), mq.ErrClosed, mq.ErrReqQFull, mq.ErrCtrlQFull)
}
func (a *mQ) AddCtrl(v int) string {
	return code(a.q.AddCtrl(v), mq.ErrClosed, mq.ErrCtrlQFull, mq.ErrReqQFull)
}
func (a *mQ) AddPriorCtrl(v int) string {
	return code(a.q.AddPriorCtrl(v), mq.ErrClosed, mq.ErrCtrlQFull, mq.ErrReqQFull)
}
func (a *mQ) Pop() (int, string)       { v, e := a.q.Pop(); return val(v, e, mq.ErrClosed) }
func (a *mQ) PopAnyway() (int, string) { v, e := a.q.PopAnyway(); return val(v, e, mq.ErrClosed) }
func (a *mQ) Close()                   { a.q.Close() }
func (a *mQ) TryClose() bool           { return a.q.TryClose() }
func (a *mQ) TryClear() bool           { return a.q.TryClear() }
func (a *mQ) Has(op string) bool {
	switch op {
	case "add", "addprior", "addctrl", "addpriorctrl", "addanyway", "addctrlanyway", "pop", "popanyway", "close", "tryclose", "tryclear":
		return true
	}
	return false
}

// ---- priq

// PEntry is the priority-queue item: value v with priority PriOf(v) (class v/1000: three ordinary priorities and the edges of int).
type PEntry struct{ V int }

func (p *PEntry) GetPriority() int { return PriOf(p.V) }

var priTable = []int{0, 1, 2, math.MaxInt, math.MinInt, -1, math.MaxInt - 1, math.MinInt + 1}

// PriOf is the priority of value v.
func PriOf(v int) int {
	if c := v / 1000; c >= 0 && c < len(priTable) {
		return priTable[c]
	}
	return 0
}

type priQ struct {
	base
	q *priq.PriQueue
}

func (a *priQ) Add(v int) string {
	err := a.q.Push(&PEntry{V: v})
	if err == nil {
		return OK
	}
	if err == priq.ErrQueueIsFull {
		return Full
	}
	return Other
}
func (a *priQ) TryPop() (int, string) {
	e := a.q.Pop()
	if e == nil {
		return 0, Empty
	}
	return e.(*PEntry).V, OK
}
func (a *priQ) Pop() (int, string) { panic("unsupported") }
func (a *priQ) Len() int           { return a.q.Len() }
func (a *priQ) Has(op string) bool {
	switch op {
	case "add", "trypop", "len":
		return true
	}
	return false
}
func (a *priQ) WaitCh() <-chan struct{} { return a.q.WaitCh() }

// NewQueue builds the queue under test. capN = 0 means unbounded (for priq: capacity is literal).
func NewQueue(kind string, capN int) Queue { return NewQueue2(kind, capN, capN) }

// NewQueue2 is NewQueue with a separate control-list capacity for the two-level queue (-1 = option not given).
func NewQueue2(kind string, capN int, ctrlCap int) Queue {
	switch kind {
	case KSyncQ:
		return &syncQ{q: syncq.NewSyncQueue()}
	case KQ:
		return &pipeQ{q: q.NewQ(q.WithSize(capN))}
	case KAsync:
		return &asyncQ{q: async.NewQ(capN)}
	case KMux:
		return &muxQ{q: mux.NewQ(capN)}
	case KMQ:
		var opts []mq.Option
		if capN >= 0 {
			opts = append(opts, mq.WithQReqSize(capN))
		}
		if ctrlCap >= 0 {
			opts = append(opts, mq.WithQCtrlSize(ctrlCap))
		}
		return &mQ{q: mq.NewMQ(opts...)}
	case KPriQ:
		return &priQ{q: priq.NewPriQueue(capN)}
	}
	panic("unknown queue kind " + kind)
}

func (a *asyncQ) AddAnyway(v int) string {
	return code(a.q.AddAnyway(v, time.Millisecond), async.ErrClosed, async.ErrFull)
}

func (a *mQ) AddAnyway(v int) string {
	return code(a.q.AddReqAnyway(v, time.Millisecond), mq.ErrClosed, mq.ErrReqQFull, mq.ErrCtrlQFull)
}

func (a *mQ) AddCtrlAnyway(v int) string {
	return code(a.q.AddCtrlAnyway(v, time.Millisecond), mq.ErrClosed, mq.ErrCtrlQFull, mq.ErrReqQFull)
}

// WaitCloser is implemented by the queues that let a goroutine wait for the close.
// IsCloseder: queues that can be asked whether they are closed.
type IsCloseder interface{ IsClosed() bool }

func (a *asyncQ) IsClosed() bool { return a.q.IsClosed() }
func (a *muxQ) IsClosed() bool   { return a.q.IsClosed() }
func (a *mQ) IsClosed() bool     { return a.q.IsClosed() }

type WaitCloser interface {
	WaitClose(ctx context.Context) error
}

func (a *muxQ) WaitClose(ctx context.Context) error { return a.q.WaitClose(ctx) }
func (a *mQ) WaitClose(ctx context.Context) error   { return a.q.WaitClose(ctx) }

// WaitClear blocks until the closed and drained queue has been declared clear (TryClear returned true).
func (a *mQ) WaitClear(ctx context.Context) error { return a.q.WaitClear(ctx) }
func (a *mQ) IsCleared() bool                     { return a.q.IsCleared() }
