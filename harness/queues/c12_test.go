package queues

import (
	"fmt"
	"strconv"
	"strings"
	"testing"
	"time"

	"github.com/anishathalye/porcupine"
	"pgregory.net/rapid"
	"verif.local/harness/hx"
	"verif.local/simrt"
)

// C12: order, capacity and close semantics of the six queue types, as linearizability of every
// recorded history (1 client = the sequential statement) against a list model.

type qOp struct {
	Op string `json:"op"`
	V  int    `json:"v"`
}

type C12Scenario struct {
	Knobs hx.SimKnobs `json:"knobs"`
	Kind  string      `json:"kind"`
	Cap   int         `json:"cap"`
	Ctrl  int         `json:"ctrl_cap"` // pipe/mq: capacity of the control list (-1: option not given = unbounded); other kinds ignore it
	Tasks [][]qOp     `json:"tasks"`
	// Burst > 0 (single client, unbounded queue): the program starts with Burst adds followed by BurstPops pops, so that the
	// backing buffer grows past its initial size (and, for 1100, past any plausible "large backlog" threshold) and shrinks again
	Burst     int `json:"burst"`
	BurstPops int `json:"burst_pops"`
	// Shutdown: the directed class "shutdown while an adder retries" (see drawC12)
	Shutdown bool `json:"shutdown,omitempty"`
}

type qIn struct {
	Op string
	V  int
}
type qOut struct {
	V    int
	Code string
}

// ---- sequential reference model; the state is an immutable string "ctrl|req|flags"

type qState struct {
	ctrl, req       []int
	closed, cleared bool
}

func (s qState) enc() string {
	var b strings.Builder
	for _, v := range s.ctrl {
		b.WriteString(strconv.Itoa(v))
		b.WriteByte(',')
	}
	b.WriteByte('|')
	for _, v := range s.req {
		b.WriteString(strconv.Itoa(v))
		b.WriteByte(',')
	}
	b.WriteByte('|')
	if s.closed {
		b.WriteByte('C')
	}
	if s.cleared {
		b.WriteByte('X')
	}
	return b.String()
}

func dec(e string) qState {
	parts := strings.Split(e, "|")
	var s qState
	rd := func(p string) []int {
		var out []int
		for _, f := range strings.Split(p, ",") {
			if f != "" {
				n, _ := strconv.Atoi(f)
				out = append(out, n)
			}
		}
		return out
	}
	s.ctrl, s.req = rd(parts[0]), rd(parts[1])
	s.closed = strings.Contains(parts[2], "C")
	s.cleared = strings.Contains(parts[2], "X")
	return s
}

func front(l []int, v int) []int { return append([]int{v}, l...) }
func back(l []int, v int) []int  { return append(append([]int{}, l...), v) }

// qModel returns the porcupine model of one queue kind with capacity capN.
func qModel(kind string, capN int, ctrlCap int) porcupine.Model {
	if ctrlCap < 0 {
		ctrlCap = 0
	}
	if capN < 0 {
		capN = 0
	}
	step := func(st interface{}, in interface{}, out interface{}) (bool, interface{}) {
		s := dec(st.(string))
		i := in.(qIn)
		o := out.(qOut)
		n := len(s.ctrl) + len(s.req)
		popFront := func() (int, qState) {
			ns := s
			if len(s.ctrl) > 0 {
				ns.ctrl = s.ctrl[1:]
				return s.ctrl[0], ns
			}
			ns.req = s.req[1:]
			return s.req[0], ns
		}
		switch i.Op {
		case "add":
			if kind == KPriQ {
				if n >= capN {
					return o.Code == Full, st
				}
				s.req = back(s.req, i.V)
				return o.Code == OK, s.enc()
			}
			if s.closed {
				if kind == KSyncQ {
					return o.Code == OK, st // silently dropped
				}
				return o.Code == Closed, st
			}
			if capN > 0 && len(s.req) >= capN {
				return o.Code == Full, st
			}
			s.req = back(s.req, i.V)
			return o.Code == OK, s.enc()
		case "addanyway":
			// like add, but a full queue makes it wait (sleep and retry): it can only take effect when there is room
			if s.closed {
				return o.Code == Closed, st
			}
			if capN > 0 && len(s.req) >= capN {
				return false, st
			}
			s.req = back(s.req, i.V)
			return o.Code == OK, s.enc()
		case "addctrlanyway":
			if s.closed {
				return o.Code == Closed, st
			}
			if ctrlCap > 0 && len(s.ctrl) >= ctrlCap {
				return false, st
			}
			s.ctrl = back(s.ctrl, i.V)
			return o.Code == OK, s.enc()
		case "addprior":
			if s.closed {
				return o.Code == Closed, st
			}
			s.req = front(s.req, i.V)
			return o.Code == OK, s.enc()
		case "addctrl":
			if s.closed {
				return o.Code == Closed, st
			}
			if ctrlCap > 0 && len(s.ctrl) >= ctrlCap {
				return o.Code == Full, st
			}
			s.ctrl = back(s.ctrl, i.V)
			return o.Code == OK, s.enc()
		case "addpriorctrl":
			if s.closed {
				return o.Code == Closed, st
			}
			s.ctrl = front(s.ctrl, i.V)
			return o.Code == OK, s.enc()
		case "pop":
			if kind == KSyncQ {
				if n > 0 {
					v, ns := popFront()
					return o.Code == OK && o.V == v, ns.enc()
				}
				if s.closed {
					return o.Code == Closed, st
				}
				return false, st // would block
			}
			// pipe queues: Pop fails after close even if items remain
			if s.closed {
				return o.Code == Closed, st
			}
			if n == 0 {
				return false, st
			}
			v, ns := popFront()
			return o.Code == OK && o.V == v, ns.enc()
		case "popanyway":
			if n > 0 {
				v, ns := popFront()
				return o.Code == OK && o.V == v, ns.enc()
			}
			if s.closed {
				return o.Code == Closed, st
			}
			return false, st
		case "trypop":
			if kind == KPriQ {
				if n == 0 {
					return o.Code == Empty, st
				}
				// highest priority, first in among equals
				bi := 0
				for k, v := range s.req {
					if PriOf(v) > PriOf(s.req[bi]) {
						bi = k
					}
				}
				v := s.req[bi]
				ns := s
				ns.req = append(append([]int{}, s.req[:bi]...), s.req[bi+1:]...)
				return o.Code == OK && o.V == v, ns.enc()
			}
			if n > 0 {
				v, ns := popFront()
				return o.Code == OK && o.V == v, ns.enc()
			}
			if s.closed {
				return o.Code == Closed, st
			}
			return o.Code == Empty, st
		case "close":
			s.closed = true
			return true, s.enc()
		case "tryclose":
			if s.closed {
				return o.Code == "true", st
			}
			if n == 0 {
				s.closed = true
				return o.Code == "true", s.enc()
			}
			return o.Code == "false", st
		case "tryclear":
			if s.cleared {
				return o.Code == "true", st
			}
			if s.closed && n == 0 {
				s.cleared = true
				return o.Code == "true", s.enc()
			}
			return o.Code == "false", st
		case "len":
			return o.V == n, st
		case "isclosed":
			want := "false"
			if s.closed {
				want = "true"
			}
			return o.Code == want, st
		}
		return false, st
	}
	return porcupine.Model{
		Init: func() interface{} { return qState{}.enc() },
		Step: step,
		DescribeOperation: func(in, out interface{}) string {
			return fmt.Sprintf("%v -> %v", in, out)
		},
	}
}

func drawC12(rt *rapid.T) interface{} {
	sc := &C12Scenario{}
	sc.Kind = rapid.SampledFrom([]string{KSyncQ, KQ, KAsync, KMux, KMQ, KPriQ}).Draw(rt, "kind")
	sc.Cap = rapid.SampledFrom([]int{0, 1, 2, 3}).Draw(rt, "cap")
	if sc.Kind == KPriQ {
		sc.Cap = rapid.SampledFrom([]int{0, 1, 2, 3, 8}).Draw(rt, "pcap")
	}
	if sc.Kind == KSyncQ {
		sc.Cap = 0 // the sync queue is unbounded
	}
	sc.Ctrl = sc.Cap
	if sc.Kind == KMQ {
		// the two limits are separate options; either may be left out
		sc.Cap = rapid.SampledFrom([]int{-1, 0, 1, 2, 3}).Draw(rt, "reqcap")
		sc.Ctrl = rapid.SampledFrom([]int{-1, 0, 1, 2, 3}).Draw(rt, "ctrlcap")
	}
	var choices []string
	switch sc.Kind {
	case KSyncQ:
		choices = []string{"add", "add", "add", "pop", "pop", "trypop", "trypop", "close", "len"}
	case KPriQ:
		choices = []string{"add", "add", "add", "trypop", "trypop", "len"}
	case KMQ:
		choices = []string{"add", "add", "addprior", "addctrl", "addctrl", "addpriorctrl", "pop", "popanyway", "popanyway", "close", "tryclose", "tryclear", "addanyway", "addctrlanyway"}
	default:
		choices = []string{"add", "add", "add", "addprior", "pop", "popanyway", "popanyway", "close", "addanyway"}
	}
	if sc.Kind == KAsync || sc.Kind == KMux || sc.Kind == KMQ {
		choices = append(choices, "isclosed")
	}
	if (sc.Kind == KQ || sc.Kind == KAsync || sc.Kind == KMux || sc.Kind == KMQ) && sc.Cap >= 1 && rapid.IntRange(0, 19).Draw(rt, "shutdown") == 0 {
		// shutdown while an adder retries: the queue is filled, one or two tasks sit in a sleep-and-retry add, another task
		// takes a few items, closes and drains until the queue reports closed
		next := 1
		var fill []qOp
		for i := 0; i < sc.Cap; i++ {
			fill = append(fill, qOp{Op: "add", V: next})
			next++
		}
		fill = append(fill, qOp{Op: "addanyway", V: next})
		next++
		sc.Tasks = append(sc.Tasks, fill)
		if rapid.Bool().Draw(rt, "second-adder") {
			op := "addanyway"
			if sc.Kind == KMQ && rapid.Bool().Draw(rt, "ctrl-adder") {
				op = "addctrlanyway"
			}
			sc.Tasks = append(sc.Tasks, []qOp{{Op: op, V: next}})
			next++
		}
		var closer []qOp
		for i := rapid.IntRange(0, 2).Draw(rt, "pops"); i > 0; i-- {
			closer = append(closer, qOp{Op: "pop", V: next})
			next++
		}
		closer = append(closer, qOp{Op: "close", V: next})
		next++
		for i := rapid.IntRange(1, sc.Cap+2).Draw(rt, "drains"); i > 0; i-- {
			closer = append(closer, qOp{Op: "popanyway", V: next})
			next++
		}
		sc.Tasks = append(sc.Tasks, closer)
		sc.Shutdown = true
		sc.Knobs = hx.DrawKnobs(rt, nil)
		sc.Knobs.EagerTimerPermille = rapid.SampledFrom([]int{0, 50, 300, 300}).Draw(rt, "eagertimer")
		return sc
	}
	nt := rapid.IntRange(1, 4).Draw(rt, "ntasks")
	maxOps := 14 / nt // concurrent histories are kept short: porcupine has to search the orders of overlapping adds,
	// which only the final drain reveals (26 operations with 12 overlapping adds already cost seconds)
	if nt == 1 {
		maxOps = hx.Pick(40, 100)
	}
	next := 1
	for i := 0; i < nt; i++ {
		n := rapid.IntRange(1, maxOps).Draw(rt, "nops")
		var ops []qOp
		for j := 0; j < n; j++ {
			op := rapid.SampledFrom(choices).Draw(rt, "op")
			v := next
			next++
			if sc.Kind == KPriQ {
				v += 1000 * rapid.SampledFrom([]int{0, 0, 1, 1, 2, 2, 3, 4, 5, 6, 7}).Draw(rt, "pri") // classes 3-7: priorities at the edges of int
			}
			ops = append(ops, qOp{Op: op, V: v})
		}
		sc.Tasks = append(sc.Tasks, ops)
	}
	if nt == 1 && sc.Cap == 0 && (sc.Kind == KSyncQ || sc.Kind == KQ || sc.Kind == KAsync || sc.Kind == KMux) && rapid.IntRange(0, 9).Draw(rt, "burst") == 0 {
		sc.Burst = rapid.SampledFrom([]int{17, 33, 70, 70, 130, 1100}).Draw(rt, "burstn")
		sc.BurstPops = rapid.SampledFrom([]int{sc.Burst, sc.Burst, sc.Burst - 1, sc.Burst / 2}).Draw(rt, "burstpops")
	}
	sc.Knobs = hx.DrawKnobs(rt, nil)
	// "slow task" fault: a sleeping adder (the sleep-and-retry adders) may wake up while other tasks are still runnable
	sc.Knobs.EagerTimerPermille = rapid.SampledFrom([]int{0, 0, 50, 300}).Draw(rt, "eagertimer")
	return sc
}

// burstOps is the prelude of a burst scenario (values from 100000 up, so they never collide with the program's own).
func burstOps(sc *C12Scenario) []qOp {
	var ops []qOp
	for i := 0; i < sc.Burst; i++ {
		ops = append(ops, qOp{Op: "add", V: 100000 + i})
	}
	pop := "popanyway"
	if sc.Kind == KSyncQ {
		pop = "trypop"
	}
	for i := 0; i < sc.BurstPops && i < sc.Burst; i++ {
		ops = append(ops, qOp{Op: pop})
	}
	return ops
}

func doOp(q Queue, op qOp) qOut {
	switch op.Op {
	case "add":
		return qOut{Code: q.Add(op.V)}
	case "addprior":
		return qOut{Code: q.AddPrior(op.V)}
	case "addctrl":
		return qOut{Code: q.AddCtrl(op.V)}
	case "addpriorctrl":
		return qOut{Code: q.AddPriorCtrl(op.V)}
	case "addanyway":
		return qOut{Code: q.AddAnyway(op.V)}
	case "addctrlanyway":
		return qOut{Code: q.AddCtrlAnyway(op.V)}
	case "pop":
		v, c := q.Pop()
		return qOut{V: v, Code: c}
	case "popanyway":
		v, c := q.PopAnyway()
		return qOut{V: v, Code: c}
	case "trypop":
		v, c := q.TryPop()
		return qOut{V: v, Code: c}
	case "close":
		q.Close()
		return qOut{Code: "done"}
	case "tryclose":
		return qOut{Code: strconv.FormatBool(q.TryClose())}
	case "tryclear":
		return qOut{Code: strconv.FormatBool(q.TryClear())}
	case "len":
		return qOut{V: q.Len()}
	case "isclosed":
		if q.(IsCloseder).IsClosed() {
			return qOut{Code: "true"}
		}
		return qOut{Code: "false"}
	}
	panic("bad op " + op.Op)
}

func runC12(t *testing.T, sci interface{}, keepLog bool) *hx.Outcome {
	sc := sci.(*C12Scenario)
	h := &hx.History{}
	main := func(s *simrt.Sim) {
		q := NewQueue2(sc.Kind, sc.Cap, sc.Ctrl)
		var ts []*simrt.Task
		for ti, ops := range sc.Tasks {
			ti, ops := ti, ops
			if ti == 0 && sc.Burst > 0 {
				ops = append(burstOps(sc), ops...)
				s.Count("burst")
			}
			ts = append(ts, simrt.GoNamed(fmt.Sprintf("client%d", ti), func() {
				me := simrt.Cur()
				for _, op := range ops {
					call := h.Invoke()
					me.EnterAPI(op.Op)
					out := doOp(q, op)
					me.ExitAPI()
					h.Return(ti, call, qIn{op.Op, op.V}, out)
					s.Logf("c%d %s %d -> %d %s", ti, op.Op, op.V, out.V, out.Code)
					simrt.Yield()
				}
			}))
		}
		// whenever every client is blocked or done and somebody is still blocked, close the queue so that
		// every operation completes (the close is part of the history)
		for {
			hx.WaitBlockedOrDone(s, ts...)
			alldone := true
			for _, tk := range ts {
				if tk.State() != simrt.Done {
					alldone = false
				}
			}
			if alldone {
				break
			}
			if !q.Has("close") {
				s.Fail("stuck", "client blocked on a queue without close")
				return
			}
			call := h.Invoke()
			q.Close()
			h.Return(len(sc.Tasks), call, qIn{"close", 0}, qOut{Code: "done"})
			s.Logf("main close")
			s.Count("release-close")
			hx.WaitDone(s, ts...)
			break
		}
		if sc.Shutdown {
			s.Count("shutdown-while-an-adder-retries")
		}
		// final drain through the draining API: conservation
		if q.Has("popanyway") || q.Has("trypop") {
			drainClosed := false
			for k := 0; k < 3000; k++ {
				var op qOp
				if q.Has("trypop") {
					op = qOp{Op: "trypop"}
				} else {
					// only safe when closed (else it would block): close first, once
					if !drainClosed {
						call := h.Invoke()
						q.Close()
						h.Return(len(sc.Tasks), call, qIn{"close", 0}, qOut{Code: "done"})
						drainClosed = true
					}
					op = qOp{Op: "popanyway"}
				}
				call := h.Invoke()
				out := doOp(q, op)
				h.Return(len(sc.Tasks), call, qIn{op.Op, 0}, out)
				s.Logf("drain %s -> %d %s", op.Op, out.V, out.Code)
				if out.Code != OK {
					break
				}
			}
		}
	}
	res := hx.RunSim(t, sc.Knobs.Config(keepLog, 40000+150*sc.Burst), nil, main)
	o := hx.FromResult(res)
	if o.Class == "" && res.Stuck {
		o.Class, o.Msg = "stuck", "tasks never finished: "+hx.Unfinished(res)
	}
	if len(sc.Tasks) == 1 {
		o.Nontrivial = len(sc.Tasks[0]) >= 3
	}
	if o.Class == "" {
		switch hx.CheckLin(qModel(sc.Kind, sc.Cap, sc.Ctrl), h, 10*time.Second) {
		case "illegal":
			o.Class = "history-not-linearizable"
			o.Msg = fmt.Sprintf("%s cap=%d: no sequential order of the recorded operations is explained by the queue model", sc.Kind, sc.Cap)
		case "unknown":
			if o.Counts == nil {
				o.Counts = map[string]int{}
			}
			o.Counts["porcupine-unknown"]++
		default:
			if o.Counts == nil {
				o.Counts = map[string]int{}
			}
			o.Counts["porcupine-ok"]++
		}
	}
	return o
}

func TestC12(t *testing.T) {
	hx.Main(t, hx.Prop{
		ID:          "C12",
		Draw:        drawC12,
		NewScenario: func() interface{} { return &C12Scenario{} },
		Run:         runC12,
		Real: []string{"queue/syncq", "queue/priq", "syncx/pipe/q", "syncx/pipe/async", "syncx/pipe/mux", "syncx/pipe/mq (simgen-transformed, otherwise unmodified)",
			"container/list", "eapache/queue", "container/heap", "porcupine v1.3.0"},
		Stubs: []string{"sync (simsync)", "goroutine scheduling (simrt baton scheduler)"},
		Rule: "scenario = queue kind x capacity x 1-4 client programs over add/prior-add/ctrl-add/pop/pop-anyway/try-pop/close/try-close/try-clear/len (1 client: up to 40 ops = sequential statement; 1 bounded pipe-queue scenario in 20 is the directed class \"shutdown while an adder retries\": queue filled, 1-2 sleep-and-retry adders, a task that pops 0-2, closes and drains) x scheduler knobs/tape x slow-task fault (a sleeper may wake while other tasks are runnable); " +
			"history checked with porcupine against a list / two-list / priority-list model, then drained through the draining API; non-trivial = >=2 tasks and >=1 context switch (or >=3 ops sequentially); distinct = distinct event-log hash",
		Probes:      []string{"porcupine-ok", "release-close", "sleep", "shutdown-while-an-adder-retries", "timer-fired-while-tasks-runnable"},
		Assumptions: []string{"blocking Pop may linearize only when an item is available or the queue is closed", "try-close/try-clear also report true when already closed/cleared (the code's behaviour; the statement is silent)"},
	})
}
