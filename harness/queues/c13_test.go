package queues

import (
	"fmt"
	"testing"

	"pgregory.net/rapid"
	"verif.local/harness/hx"
	"verif.local/simrt"
)

// C13: no lost wake-ups; close releases every blocked consumer.

type pOp struct {
	Op string `json:"op"` // add addprior addctrl addpriorctrl close tryclose
	V  int    `json:"v"`
}

type C13Scenario struct {
	Knobs          hx.SimKnobs `json:"knobs"`
	Kind           string      `json:"kind"`
	Cap            int         `json:"cap"`
	Consumers      [][]string  `json:"consumers"` // per consumer: "pop" | "popanyway"; priq: "wait"
	Producers      [][]pOp     `json:"producers"`
	ConsumersFirst bool        `json:"consumers_first"`
	HoldYields     int         `json:"hold_yields"`   // priq: yields between the signal and the Pop
	CloseWaiters   int         `json:"close_waiters"` // pipe/mux, pipe/mq: goroutines blocked in WaitClose, which Close must release
	// Burst > 0 (unbounded condition-variable queues): one more task adds Burst items and then pops while the queue holds
	// any, next to the other consumers: the backing buffer grows and is drained completely while consumers are parked on it
	Burst int `json:"burst"`
	// ClearWaiters (pipe/mq): goroutines blocked in WaitClear; after the final close the harness drains the queue and calls
	// TryClear: once that returns true they must all return
	ClearWaiters int `json:"clear_waiters"`
}

func drawC13(rt *rapid.T) interface{} {
	sc := &C13Scenario{}
	kinds := append(append([]string{}, CondKinds...), KPriQ)
	sc.Kind = rapid.SampledFrom(kinds).Draw(rt, "kind")
	sc.Cap = rapid.SampledFrom([]int{0, 0, 1, 2, 3}).Draw(rt, "cap")
	if sc.Kind == KPriQ {
		sc.Cap = rapid.SampledFrom([]int{1, 2, 3, 8}).Draw(rt, "pcap")
	}
	nc := rapid.IntRange(1, hx.Pick(4, 6)).Draw(rt, "nc")
	for i := 0; i < nc; i++ {
		n := rapid.IntRange(1, 3).Draw(rt, "npop")
		var ops []string
		for j := 0; j < n; j++ {
			switch {
			case sc.Kind == KPriQ:
				ops = append(ops, "wait")
			case sc.Kind == KSyncQ:
				ops = append(ops, "pop")
			default:
				ops = append(ops, rapid.SampledFrom([]string{"pop", "popanyway"}).Draw(rt, "cop"))
			}
		}
		sc.Consumers = append(sc.Consumers, ops)
	}
	np := rapid.IntRange(1, 3).Draw(rt, "np")
	next := 1
	for i := 0; i < np; i++ {
		n := rapid.IntRange(0, 4).Draw(rt, "nprod")
		var ops []pOp
		for j := 0; j < n; j++ {
			var choices []string
			switch sc.Kind {
			case KPriQ:
				choices = []string{"add"}
			case KSyncQ:
				choices = []string{"add", "add", "add", "close"}
			case KMQ:
				choices = []string{"add", "add", "addprior", "addctrl", "addpriorctrl", "close", "tryclose"}
			default:
				choices = []string{"add", "add", "add", "addprior", "close"}
			}
			op := rapid.SampledFrom(choices).Draw(rt, "pop")
			v := next
			next++
			if sc.Kind == KPriQ {
				v += 1000 * rapid.IntRange(0, 2).Draw(rt, "pri")
			}
			ops = append(ops, pOp{Op: op, V: v})
		}
		sc.Producers = append(sc.Producers, ops)
	}
	sc.ConsumersFirst = rapid.Bool().Draw(rt, "consfirst")
	sc.HoldYields = rapid.IntRange(0, 2).Draw(rt, "hold")
	if sc.Kind == KMux || sc.Kind == KMQ {
		sc.CloseWaiters = rapid.IntRange(0, 2).Draw(rt, "closewaiters")
	}
	if sc.Kind == KMQ {
		sc.ClearWaiters = rapid.IntRange(0, 2).Draw(rt, "clearwaiters")
	}
	if sc.Cap == 0 && (sc.Kind == KSyncQ || sc.Kind == KQ || sc.Kind == KAsync || sc.Kind == KMux) && rapid.IntRange(0, 7).Draw(rt, "burst") == 0 {
		sc.Burst = rapid.SampledFrom([]int{17, 33, 70, 1100, 1100}).Draw(rt, "burstn")
	}
	sc.Knobs = hx.DrawKnobs(rt, nil)
	return sc
}

type c13State struct {
	q               Queue
	kind            string
	added           map[int]bool
	popped          map[int]bool
	length          int // successful adds - successful pops (cond queues without Len)
	closed          bool
	closedOrClosing bool // somebody has invoked Close / TryClose
	cons            []*simrt.Task
	holding         int // priq: consumers between a wait-channel receive and the end of their Pop
	closeWaiters    []*simrt.Task
	waiting         map[int]bool // priq: consumers inside their wait on WaitCh() (blocked, or woken and about to hold)
}

func runC13(t *testing.T, sci interface{}, keepLog bool) *hx.Outcome {
	sc := sci.(*C13Scenario)
	st := &c13State{kind: sc.Kind, added: map[int]bool{}, popped: map[int]bool{}, waiting: map[int]bool{}}
	var stop chan struct{} // created inside the bubble (a select on an outside channel is not durably blocked)

	setup := func(s *simrt.Sim) {
		s.OnQuiescent = func(s *simrt.Sim) {
			if st.q == nil || !s.APIQuiescent() {
				return
			}
			if sc.Kind == KPriQ {
				pq := st.q.(*priQ)
				holding := st.holding
				for ci, c := range st.cons {
					// a consumer that was woken out of its wait but has not run yet holds a signal already
					if st.waiting[ci] && !c.Blocked() {
						holding++
					}
				}
				if holding == 0 {
					n, ok := safeLen(pq)
					if ok && n > 0 && len(pq.WaitCh()) != 1 {
						s.Fail("priq-nonempty-but-waitch-unreadable",
							"priority queue holds %d item(s), no Push/Pop in progress, no consumer holds a signal, yet WaitCh() is not readable", n)
					}
				}
				return
			}
			blocked := 0
			for _, c := range st.cons {
				if c.InAPI() && c.Blocked() {
					blocked++
				}
			}
			if st.closed {
				for _, w := range st.closeWaiters {
					if w.InAPI() && w.Blocked() {
						s.Fail("close-leaves-waiter-blocked", "%s: queue is closed (Close returned) but a goroutine is still blocked in WaitClose", sc.Kind)
						return
					}
				}
			}
			if blocked == 0 {
				return
			}
			if st.closed {
				s.Fail("close-leaves-consumer-blocked", "%s: queue is closed (Close returned) but %d consumer(s) are still blocked in Pop", sc.Kind, blocked)
				return
			}
			n := st.length
			if sc.Kind == KSyncQ {
				if l, ok := safeLen(st.q); ok {
					n = l
				}
			}
			if n > 0 {
				s.Fail("item-available-consumer-blocked", "%s: %d item(s) queued, queue open, yet %d consumer(s) blocked in Pop", sc.Kind, n, blocked)
			}
		}
	}

	main := func(s *simrt.Sim) {
		st.q = NewQueue(sc.Kind, sc.Cap)
		stop = make(chan struct{})
		for ci, ops := range sc.Consumers {
			ci, ops := ci, ops
			tk := simrt.GoNamed(fmt.Sprintf("consumer%d", ci), func() {
				me := simrt.Cur()
				for _, op := range ops {
					var v int
					var code string
					switch op {
					case "pop":
						me.EnterAPI("Pop")
						v, code = st.q.Pop()
						me.ExitAPI()
					case "popanyway":
						me.EnterAPI("PopAnyway")
						v, code = st.q.PopAnyway()
						me.ExitAPI()
					case "wait":
						pq := st.q.(*priQ)
						got := false
						st.waiting[ci] = true
						select {
						case <-pq.WaitCh():
							got = true
						default:
						}
						if !got {
							select {
							case <-stop:
								simrt.Woke(0)
								s.Logf("c%d stop", ci)
								st.waiting[ci] = false
								return
							default:
							}
							select {
							case <-pq.WaitCh():
								got = true
							case <-stop:
							}
							simrt.Woke(0)
							if !got {
								s.Logf("c%d stop", ci)
								st.waiting[ci] = false
								return
							}
						}
						st.holding++
						st.waiting[ci] = false
						s.Count("priq-signal-received")
						for i := 0; i < sc.HoldYields; i++ {
							simrt.Yield()
						}
						me.EnterAPI("Pop")
						v, code = st.q.TryPop()
						me.ExitAPI()
						st.holding--
						if code == Empty {
							s.Count("priq-pop-empty-after-signal")
						}
					}
					s.Logf("c%d %s -> %d %s", ci, op, v, code)
					if code == OK {
						if !st.added[v] {
							s.Fail("popped-item-never-added", "consumer %d got %d which no producer added", ci, v)
						}
						if st.popped[v] {
							s.Fail("item-popped-twice", "consumer %d got %d a second time", ci, v)
						}
						st.popped[v] = true
						st.length--
					}
					if code == Closed {
						return
					}
					simrt.Yield()
				}
			})
			st.cons = append(st.cons, tk)
		}
		if wc, ok := st.q.(WaitCloser); ok {
			for wi := 0; wi < sc.CloseWaiters; wi++ {
				wi := wi
				st.closeWaiters = append(st.closeWaiters, simrt.GoNamed(fmt.Sprintf("closewaiter%d", wi), func() {
					me := simrt.Cur()
					me.EnterAPI("WaitClose")
					err := wc.WaitClose(hx.NewCtx("waitclose"))
					me.ExitAPI()
					s.Logf("closewaiter%d -> %v", wi, err)
					if err != nil {
						s.Fail("waitclose-error", "WaitClose with a live context returned %v", err)
					}
					if !st.closedOrClosing {
						s.Fail("waitclose-returned-before-close", "WaitClose returned although nobody had called Close")
					}
					s.Count("close-waiter-released")
				}))
			}
		}
		if sc.ConsumersFirst {
			hx.WaitBlockedOrDone(s, st.cons...)
			nb := 0
			for _, c := range st.cons {
				if c.Blocked() {
					nb++
				}
			}
			if nb >= 2 {
				s.Count("consumers-blocked>=2-before-producers")
			}
		}
		var prods []*simrt.Task
		var bursterTask *simrt.Task
		if sc.Burst > 0 {
			s.Count("burst")
			burster := simrt.GoNamed("burster", func() {
				me := simrt.Cur()
				for i := 0; i < sc.Burst; i++ {
					v := 100000 + i
					st.added[v] = true
					me.EnterAPI("add")
					code := st.q.Add(v)
					me.ExitAPI()
					if code == OK {
						st.length++
					}
				}
				s.Logf("burster added %d", sc.Burst)
				for st.length > 0 && !st.closedOrClosing {
					me.EnterAPI("Pop")
					v, code := st.q.Pop()
					me.ExitAPI()
					if code != OK {
						s.Logf("burster pop -> %s", code)
						return
					}
					if !st.added[v] || st.popped[v] {
						s.Fail("item-popped-twice", "burster got %d (added %v, popped before %v)", v, st.added[v], st.popped[v])
						return
					}
					st.popped[v] = true
					st.length--
				}
				s.Logf("burster drained")
			})
			// the burster is a consumer like the others (a blocked Pop beside a non-empty queue is a lost wake-up) ...
			st.cons = append(st.cons, burster)
			bursterTask = burster
		}
		for pi, ops := range sc.Producers {
			pi, ops := pi, ops
			tk := simrt.GoNamed(fmt.Sprintf("producer%d", pi), func() {
				me := simrt.Cur()
				for _, op := range ops {
					var code string
					st.added[op.V] = true
					me.EnterAPI(op.Op)
					switch op.Op {
					case "add":
						code = st.q.Add(op.V)
					case "addprior":
						code = st.q.AddPrior(op.V)
					case "addctrl":
						code = st.q.AddCtrl(op.V)
					case "addpriorctrl":
						code = st.q.AddPriorCtrl(op.V)
					case "close":
						st.closedOrClosing = true
						st.q.Close()
						code = "done"
					case "tryclose":
						st.closedOrClosing = true
						if st.q.TryClose() {
							code = "true"
						} else {
							code = "false"
						}
					}
					me.ExitAPI()
					s.Logf("p%d %s %d -> %s", pi, op.Op, op.V, code)
					switch {
					case op.Op == "close" || (op.Op == "tryclose" && code == "true"):
						st.closed = true
						s.Count("close")
					case code == OK:
						st.length++
					}
					simrt.Yield()
				}
			})
			prods = append(prods, tk)
		}
		hx.WaitDone(s, prods...)
		if bursterTask != nil {
			// done, or parked in a Pop that a consumer emptied the queue under: the final Close releases it like the others
			hx.WaitBlockedOrDone(s, bursterTask)
		}
		// release everybody: the final Close must let every consumer return
		if sc.Kind == KPriQ {
			hx.WaitBlockedOrDone(s, st.cons...)
			close(stop)
		} else {
			me := simrt.Cur()
			me.EnterAPI("Close")
			st.closedOrClosing = true
			st.q.Close()
			me.ExitAPI()
			st.closed = true
			s.Logf("main close")
		}
		hx.WaitDone(s, st.cons...)
		hx.WaitDone(s, st.closeWaiters...)
		if mq, ok := st.q.(*mQ); ok && sc.ClearWaiters > 0 {
			var cw []*simrt.Task
			for wi := 0; wi < sc.ClearWaiters; wi++ {
				wi := wi
				cw = append(cw, simrt.GoNamed(fmt.Sprintf("clearwaiter%d", wi), func() {
					me := simrt.Cur()
					me.EnterAPI("WaitClear")
					err := mq.WaitClear(hx.NewCtx("waitclear"))
					me.ExitAPI()
					s.Logf("clearwaiter%d -> %v", wi, err)
					if err != nil {
						s.Fail("waitclear-error", "WaitClear with a live context returned %v", err)
					}
				}))
			}
			hx.WaitBlockedOrDone(s, cw...)
			// drain what the consumers left, then declare the queue clear
			for k := 0; k < 100; k++ {
				if _, code := mq.PopAnyway(); code != OK {
					break
				}
			}
			cleared := mq.TryClear()
			s.Logf("tryclear -> %v", cleared)
			if !cleared || !mq.IsCleared() {
				s.Fail("tryclear-refused", "the queue is closed and drained, TryClear returned %v (IsCleared %v)", cleared, mq.IsCleared())
			}
			s.Count("clear-waiters-released")
			// every goroutine in WaitClear must return now (a stuck run reports the ones that do not)
			hx.WaitDone(s, cw...)
		}
	}

	res := hx.RunSim(t, sc.Knobs.Config(keepLog, 20000+150*sc.Burst), setup, main)
	o := hx.FromResult(res)
	if o.Class == "" && res.Stuck {
		o.Class = "stuck"
		o.Msg = "tasks never finished: " + hx.Unfinished(res)
	}
	return o
}

func safeLen(q Queue) (n int, ok bool) {
	defer func() {
		if r := recover(); r != nil {
			ok = false
		}
	}()
	return q.Len(), true
}

func TestC13(t *testing.T) {
	hx.Main(t, hx.Prop{
		ID:          "C13",
		Draw:        drawC13,
		NewScenario: func() interface{} { return &C13Scenario{} },
		Run:         runC13,
		Real: []string{"queue/syncq", "queue/priq", "syncx/pipe/q", "syncx/pipe/async", "syncx/pipe/mux", "syncx/pipe/mq (all transformed by simgen, otherwise unmodified)",
			"container/list", "eapache/queue", "container/heap"},
		Stubs: []string{"sync (simsync: Mutex, Cond with FIFO Signal)", "goroutine scheduling (simrt baton scheduler)", "time (simtime; unused here)"},
		Rule: "scenario = queue kind x capacity x 1-4 consumer programs x 1-3 producer programs (add/prior/ctrl/close/try-close) x scheduler knobs and tape, all drawn by rapid; " +
			"non-trivial = at least 2 tasks and 1 context switch; distinct = distinct event-log hash (schedule decisions + every operation result)",
		Probes: []string{"close", "consumers-blocked>=2-before-producers", "priq-signal-received", "priq-pop-empty-after-signal", "close-waiter-released", "clear-waiters-released"},
		Assumptions: []string{"simsync.Cond.Signal wakes the longest waiter (as the runtime's ticket-ordered notifyList does)",
			"memory is sequentially consistent between preemption points (one task runs at a time)"},
	})
}
