// Package selftest checks the simulator itself: simsync against the real sync package on the
// behaviours the checks rely on (writer preference, FIFO Signal, Once, WaitGroup), scheduler
// determinism, timers and native wake-ups.
package selftest

import (
	"fmt"
	rsync "sync"
	"testing"
	"time"

	"verif.local/harness/hx"
	"verif.local/simrt"
	simsync "verif.local/simrt/simsync"
	simtime "verif.local/simrt/simtime"
)

type rwLocker interface {
	Lock()
	Unlock()
	RLock()
	RUnlock()
}

// scenario A: R1 holds, W queues, R2 arrives later: with Go's writer preference R2 is admitted only after W.
// scenario B: W1 holds, R1 and R2 queue, then W2 queues: on W1's unlock both readers run before W2.
// real: ordering forced with sleeps; sim: ordering forced with "wait until blocked".
func realOrderA(rw rwLocker) string {
	var mu rsync.Mutex
	var order []string
	rec := func(s string) { mu.Lock(); order = append(order, s); mu.Unlock() }
	var wg rsync.WaitGroup
	rw.RLock() // R1
	wg.Add(2)
	go func() { defer wg.Done(); rw.Lock(); rec("W"); rw.Unlock() }()
	time.Sleep(30 * time.Millisecond)
	go func() { defer wg.Done(); rw.RLock(); rec("R2"); rw.RUnlock() }()
	time.Sleep(30 * time.Millisecond)
	rec("R1-release")
	rw.RUnlock()
	wg.Wait()
	return fmt.Sprint(order)
}

func realOrderB(rw rwLocker) string {
	var mu rsync.Mutex
	var order []string
	rec := func(s string) { mu.Lock(); order = append(order, s); mu.Unlock() }
	var wg rsync.WaitGroup
	rw.Lock() // W1
	wg.Add(3)
	rd := func(n string) { defer wg.Done(); rw.RLock(); rec("R"); time.Sleep(20 * time.Millisecond); rw.RUnlock() }
	go rd("R1")
	go rd("R2")
	time.Sleep(30 * time.Millisecond)
	go func() { defer wg.Done(); rw.Lock(); rec("W2"); rw.Unlock() }()
	time.Sleep(30 * time.Millisecond)
	rw.Unlock()
	wg.Wait()
	return fmt.Sprint(order)
}

func simRun(t *testing.T, seed uint64, main func(s *simrt.Sim)) *simrt.Result {
	k := hx.SimKnobs{Seed: seed, YieldPermille: 1000, Tape: []uint8{uint8(seed), uint8(seed >> 3), uint8(seed >> 5), 1, 2, 0, 3}}
	return hx.RunSim(t, k.Config(true, 100000), nil, main)
}

func simOrderA(t *testing.T, seed uint64) string {
	var order []string
	simRun(t, seed, func(s *simrt.Sim) {
		rw := &simsync.RWMutex{}
		rw.RLock()
		w := simrt.GoNamed("W", func() { rw.Lock(); order = append(order, "W"); rw.Unlock() })
		hx.WaitBlockedOrDone(s, w)
		r2 := simrt.GoNamed("R2", func() { rw.RLock(); order = append(order, "R2"); rw.RUnlock() })
		hx.WaitBlockedOrDone(s, r2)
		order = append(order, "R1-release")
		rw.RUnlock()
		hx.WaitDone(s, w, r2)
	})
	return fmt.Sprint(order)
}

func simOrderB(t *testing.T, seed uint64) string {
	var order []string
	simRun(t, seed, func(s *simrt.Sim) {
		rw := &simsync.RWMutex{}
		rw.Lock()
		rd := func() { rw.RLock(); order = append(order, "R"); simrt.Yield(); rw.RUnlock() }
		r1 := simrt.GoNamed("R1", rd)
		r2 := simrt.GoNamed("R2", rd)
		hx.WaitBlockedOrDone(s, r1, r2)
		w2 := simrt.GoNamed("W2", func() { rw.Lock(); order = append(order, "W2"); rw.Unlock() })
		hx.WaitBlockedOrDone(s, w2)
		rw.Unlock()
		hx.WaitDone(s, r1, r2, w2)
	})
	return fmt.Sprint(order)
}

func TestRWMutexWriterPreferenceMatchesRealSync(t *testing.T) {
	wantA, wantB := realOrderA(&rsync.RWMutex{}), realOrderB(&rsync.RWMutex{})
	if wantA != "[R1-release W R2]" || wantB != "[R R W2]" {
		t.Fatalf("real sync.RWMutex behaves unexpectedly: %s %s", wantA, wantB)
	}
	// the shim outside a simulation is the real thing
	if a, b := realOrderA(&simsync.RWMutex{}), realOrderB(&simsync.RWMutex{}); a != wantA || b != wantB {
		t.Fatalf("simsync.RWMutex in real mode: %s %s, real sync: %s %s", a, b, wantA, wantB)
	}
	for seed := uint64(0); seed < 200; seed++ {
		if a := simOrderA(t, seed); a != wantA {
			t.Fatalf("seed %d: simulated RWMutex order A %s, real %s", seed, a, wantA)
		}
		if b := simOrderB(t, seed); b != wantB {
			t.Fatalf("seed %d: simulated RWMutex order B %s, real %s", seed, b, wantB)
		}
	}
}

func TestCondSignalIsFIFO(t *testing.T) {
	// real
	var mu rsync.Mutex
	c := rsync.NewCond(&mu)
	var order []string
	var wg rsync.WaitGroup
	for _, n := range []string{"A", "B", "C"} {
		n := n
		wg.Add(1)
		go func() { defer wg.Done(); mu.Lock(); c.Wait(); order = append(order, n); mu.Unlock() }()
		time.Sleep(20 * time.Millisecond)
	}
	for i := 0; i < 3; i++ {
		mu.Lock()
		c.Signal()
		mu.Unlock()
		time.Sleep(20 * time.Millisecond)
	}
	wg.Wait()
	want := fmt.Sprint(order)
	if want != "[A B C]" {
		t.Fatalf("real sync.Cond.Signal order %s", want)
	}
	for seed := uint64(0); seed < 200; seed++ {
		var got []string
		simRun(t, seed, func(s *simrt.Sim) {
			var m simsync.Mutex
			cd := simsync.NewCond(&m)
			var ts []*simrt.Task
			for _, n := range []string{"A", "B", "C"} {
				n := n
				tk := simrt.GoNamed(n, func() { m.Lock(); cd.Wait(); got = append(got, n); m.Unlock() })
				hx.WaitBlockedOrDone(s, tk)
				ts = append(ts, tk)
			}
			for i := 0; i < 3; i++ {
				m.Lock()
				cd.Signal()
				m.Unlock()
				hx.WaitDone(s, ts[i])
			}
		})
		if fmt.Sprint(got) != want {
			t.Fatalf("seed %d: simulated Cond.Signal order %v, real %s", seed, got, want)
		}
	}
}

func TestOnceWaitGroupPanics(t *testing.T) {
	res := simRun(t, 1, func(s *simrt.Sim) {
		var o simsync.Once
		n := 0
		entered := false
		first := simrt.GoNamed("first", func() { o.Do(func() { entered = true; simrt.Yield(); simrt.Yield(); n++ }) })
		s.Block(simrt.Cur(), func() bool { return entered }, "selftest:first-inside-do")
		second := simrt.GoNamed("second", func() {
			o.Do(func() { n += 100 })
			if n != 1 {
				s.Fail("once", "second Do returned before the first finished: n=%d", n)
			}
		})
		hx.WaitDone(s, first, second)
		var wg simsync.WaitGroup
		wg.Add(2)
		w := simrt.GoNamed("waiter", func() { wg.Wait() })
		hx.WaitBlockedOrDone(s, w)
		wg.Done()
		wg.Done()
		hx.WaitDone(s, w)
		func() {
			defer func() {
				if recover() == nil {
					s.Fail("waitgroup", "negative counter did not panic")
				}
			}()
			wg.Done()
		}()
		var m simsync.Mutex
		func() {
			defer func() {
				if recover() == nil {
					s.Fail("mutex", "unlock of unlocked mutex did not panic")
				}
			}()
			m.Unlock()
		}()
	})
	if res.Violation != nil {
		t.Fatalf("%s: %s", res.Violation.Class, res.Violation.Msg)
	}
}

// a program with mutexes, sleeps on the simulated clock, native channel wake-ups (6-way fan-out) and a select
func program(s *simrt.Sim) {
	var mu simsync.Mutex
	ch := make(chan int)
	done := make(chan struct{})
	total := 0
	var ts []*simrt.Task
	for i := 0; i < 6; i++ {
		i := i
		ts = append(ts, simrt.GoNamed(fmt.Sprintf("w%d", i), func() {
			<-done
			simrt.Woke(0)
			simtime.Sleep(time.Duration(i%3) * time.Millisecond)
			mu.Lock()
			total += i
			s.Logf("w%d total=%d t=%v", i, total, s.Now())
			mu.Unlock()
		}))
	}
	prod := simrt.GoNamed("prod", func() {
		for i := 0; i < 3; i++ {
			ch <- i
			simrt.Woke(0)
			simrt.Yield()
		}
		close(ch)
	})
	cons := simrt.GoNamed("cons", func() {
		for {
			v, ok := <-ch
			simrt.Woke(0)
			if !ok {
				return
			}
			s.Logf("got %d", v)
		}
	})
	hx.WaitBlockedOrDone(s, ts...)
	close(done)
	hx.WaitDone(s, append(ts, prod, cons)...)
}

func TestSchedulerDeterministicAndSeedSensitive(t *testing.T) {
	hashes := map[string]bool{}
	for seed := uint64(0); seed < 300; seed++ {
		a := simRun(t, seed, program)
		b := simRun(t, seed, program)
		if a.LogHash != b.LogHash || fmt.Sprint(a.Log) != fmt.Sprint(b.Log) {
			t.Fatalf("seed %d: two runs differ", seed)
		}
		if a.Stuck || len(a.Unfinished) != 0 || len(a.Panics) != 0 {
			t.Fatalf("seed %d: program did not finish: %+v", seed, a)
		}
		hashes[a.LogHash] = true
	}
	if len(hashes) < 50 {
		t.Fatalf("300 seeds gave only %d distinct interleavings", len(hashes))
	}
}

func TestStuckIsReported(t *testing.T) {
	res := simRun(t, 3, func(s *simrt.Sim) {
		var m simsync.Mutex
		m.Lock()
		tk := simrt.GoNamed("blocked", func() { m.Lock() })
		hx.WaitDone(s, tk)
	})
	if !res.Stuck || len(res.Unfinished) != 2 {
		t.Fatalf("a deadlocked program must end as stuck with both tasks unfinished: %+v", res)
	}
}
