// Package stcph holds the harness for C16 (stcp session: single exit, balanced count, flush before close).
package stcph

import (
	"errors"
	"fmt"
	"strings"
	"testing"
	"time"

	"github.com/pinealctx/neptune/stcp"
	"github.com/pinealctx/neptune/ulog"
	"go.uber.org/zap/zapcore"
	"pgregory.net/rapid"
	"verif.local/harness/hx"
	"verif.local/simrt"
	simnet "verif.local/simrt/simnet"
	simtime "verif.local/simrt/simtime"
)

func init() { ulog.SetLogLevel(zapcore.FatalLevel + 1) }

type frame struct {
	Kind byte `json:"kind"` // 'e' echo, 'n' swallow, 'x' handler error, 'p' handler panic
	Len  int  `json:"len"`
}

type connPlan struct {
	Frames        []frame `json:"frames"`
	ClientReads   bool    `json:"client_reads"`
	End           string  `json:"end"`       // local-close | peer-close | reset | silent
	EndAfter      int     `json:"end_after"` // yields before the end event
	ServerSends   []int   `json:"server_sends"`
	SecondEnd     string  `json:"second_end"`     // "" or another terminating event racing with the first
	IdleMs        int     `json:"idle_ms"`        // the server-side actor lets this much simulated time pass before its Sends (0 = none)
	Direct        bool    `json:"direct"`         // the session is started by the application itself (NewSession(mgr, conn).Start()), not by the accept loop
	CloseFails    bool    `json:"close_fails"`    // the server side's conn.Close() returns an error (the connection is closed all the same)
	OwnHandler    bool    `json:"own_handler"`    // the session gets a handler of its own (UpdateHandler): reads and the exit callback go through it
	DeadlineFault int     `json:"deadline_fault"` // 1: the server side's next SetWriteDeadline fails once; 2: its next SetReadDeadline fails once (armed when the actor starts)
	ReadDelayMs   int     `json:"read_delay_ms"`  // a reading peer starts reading only after this much simulated time (0 = at once): writes time out meanwhile
}

type C16Scenario struct {
	Knobs    hx.SimKnobs `json:"knobs"`
	MaxConn  int32       `json:"max_conn"`
	ReadTO   int         `json:"read_timeout_ms"`
	WriteTO  int         `json:"write_timeout_ms"`
	BufSize  int         `json:"buf_size"`
	Conns    []connPlan  `json:"conns"`
	AccErrs  int         `json:"accept_errors"` // temporary accept errors injected before the connections
	DialGaps []int       `json:"dial_gaps"`     // yields between dials
	Echo     bool        `json:"echo"`          // the server hands connections to an EchoMgr (request/response sessions owned by the handler) instead of a SessionMgr
}

func drawC16(rt *rapid.T) interface{} {
	sc := &C16Scenario{}
	sc.MaxConn = int32(rapid.SampledFrom([]int{1, 2, 3, 8, 0}).Draw(rt, "maxconn")) // 0: every connection is surplus
	sc.ReadTO = rapid.SampledFrom([]int{50, 20000}).Draw(rt, "rto")
	sc.WriteTO = rapid.SampledFrom([]int{30, 8000}).Draw(rt, "wto")
	sc.BufSize = rapid.SampledFrom([]int{8, 64, 4096}).Draw(rt, "buf")
	sc.AccErrs = rapid.SampledFrom([]int{0, 0, 0, 1, 3}).Draw(rt, "accerrs")
	nc := rapid.IntRange(1, hx.Pick(4, 6)).Draw(rt, "nconns")
	for i := 0; i < nc; i++ {
		p := connPlan{}
		nf := rapid.IntRange(0, 4).Draw(rt, "nframes")
		for j := 0; j < nf; j++ {
			k := rapid.SampledFrom([]byte{'e', 'e', 'e', 'n', 'n', 'x', 'p'}).Draw(rt, "fkind")
			p.Frames = append(p.Frames, frame{Kind: k, Len: rapid.SampledFrom([]int{0, 1, 5, 40}).Draw(rt, "flen")})
		}
		p.ClientReads = rapid.IntRange(0, 4).Draw(rt, "reads") != 0
		p.End = rapid.SampledFrom([]string{"local-close", "local-close", "local-close", "peer-close", "reset", "silent"}).Draw(rt, "end")
		p.EndAfter = rapid.IntRange(0, 8).Draw(rt, "endafter")
		ns := rapid.IntRange(0, 5).Draw(rt, "nsends")
		for j := 0; j < ns; j++ {
			p.ServerSends = append(p.ServerSends, rapid.SampledFrom([]int{1, 3, 20, 200, 200, 5000, 9000}).Draw(rt, "slen"))
			if rapid.IntRange(0, 4).Draw(rt, "pause") == 0 {
				// a negative entry: the actor lets that many milliseconds pass between two Sends
				p.ServerSends = append(p.ServerSends, -rapid.SampledFrom([]int{10, 100, 10000}).Draw(rt, "pausems"))
			}
		}
		p.IdleMs = rapid.SampledFrom([]int{0, 0, 0, 10, 100, 10000, 30000}).Draw(rt, "idle")
		p.CloseFails = rapid.IntRange(0, 5).Draw(rt, "closefails") == 0
		p.Direct = rapid.IntRange(0, 5).Draw(rt, "direct") == 0
		p.OwnHandler = rapid.IntRange(0, 3).Draw(rt, "ownhandler") == 0
		if p.ClientReads && rapid.IntRange(0, 5).Draw(rt, "latereader") == 0 {
			p.ReadDelayMs = rapid.SampledFrom([]int{20, 100, 9000, 40000}).Draw(rt, "readdelay")
		}
		if rapid.IntRange(0, 7).Draw(rt, "dlfault") == 0 {
			p.DeadlineFault = rapid.IntRange(1, 2).Draw(rt, "dlkind")
		}
		if rapid.IntRange(0, 4).Draw(rt, "second") == 0 {
			p.SecondEnd = rapid.SampledFrom([]string{"local-close", "peer-close", "reset"}).Draw(rt, "end2")
		}
		sc.Conns = append(sc.Conns, p)
		sc.DialGaps = append(sc.DialGaps, rapid.IntRange(0, 3).Draw(rt, "gap"))
	}
	sc.Echo = rapid.IntRange(0, 7).Draw(rt, "echo") == 0
	sc.Knobs = hx.DrawKnobs(rt, []int{300, 100, 30})
	return sc
}

// chunk wire format (server -> client): src, seq, len(2 bytes big endian), payload bytes all = seq
// idle: the simulated time the server-side actor lets pass in all (before and between its Sends)
func (p *connPlan) idle() int {
	t := p.IdleMs
	for _, n := range p.ServerSends {
		if n < 0 {
			t -= n
		}
	}
	return t
}

func chunk(src, seq byte, n int) []byte {
	b := make([]byte, 4+n)
	b[0], b[1], b[2], b[3] = src, seq, byte(n>>8), byte(n)
	for i := 0; i < n; i++ {
		b[4+i] = seq
	}
	return b
}

type connState struct {
	plan         connPlan
	client       *simnet.SimConn
	sess         *stcp.Session
	exits        int
	started      bool
	accepted     [2]int // per source: chunks whose Send returned nil
	recv         []byte
	eof          bool
	clientErr    error
	handlerEnded string
	faulty       bool // something other than the single local close may have cut the stream
	closeReq     bool // the application has called Close on the running session
	closeAt      time.Duration
	dialAt       time.Duration
	ownInstalled bool // UpdateHandler has been called for the session
}

type handler struct {
	s     *simrt.Sim
	conns map[string]*connState
	own   *handler // the handler sessions with a handler of their own are switched to (nil in that handler itself)
	isOwn bool
}

func (h *handler) of(s *stcp.Session) *connState { return h.conns[s.RemoteAddr()] }

// Read is the session's read handler: one frame = kind, length, payload.
func (h *handler) Read(s *stcp.Session) error {
	cs := h.of(s)
	if cs == nil {
		h.s.Fail("unknown-session", "handler called for unknown remote %q", s.RemoteAddr())
		return errors.New("unknown")
	}
	if cs.sess == nil {
		cs.sess, cs.started = s, true
		h.s.Logf("session started %s", s.RemoteAddr())
		if cs.plan.OwnHandler && h.own != nil {
			s.UpdateHandler(h.own)
			cs.ownInstalled = true
			h.s.Count("session-with-own-handler")
		}
	}
	var hdr [2]byte
	if err := s.Read(hdr[:]); err != nil {
		return err
	}
	payload := make([]byte, int(hdr[1]))
	if len(payload) > 0 {
		if err := s.Read(payload); err != nil {
			return err
		}
	}
	switch hdr[0] {
	case 'e':
		seq := byte(cs.accepted[0])
		if err := s.Send(chunk(0, seq, len(payload))); err == nil {
			cs.accepted[0]++
		}
	case 'x':
		cs.handlerEnded, cs.faulty = "error", true
		return errors.New("handler: refuse frame")
	case 'p':
		cs.handlerEnded, cs.faulty = "panic", true
		panic("handler: boom")
	}
	return nil
}

func (h *handler) OnExit(s *stcp.Session) {
	cs := h.of(s)
	if cs == nil {
		return
	}
	cs.exits++
	if cs.ownInstalled && cs.plan.Direct && !h.isOwn {
		// (for sessions that switch handlers in their first read the exit path may legitimately have picked the manager's
		// handler just before the switch: only a handler installed before Start is judged)
		h.s.Fail("exit-callback-to-wrong-handler", "session %s was started with a handler of its own, the exit callback went to the manager's handler", s.RemoteAddr())
	}
	h.s.Logf("OnExit %s (#%d)", s.RemoteAddr(), cs.exits)
	if cs.exits > 1 {
		h.s.Fail("exit-callback-twice", "OnExit ran %d times for session %s", cs.exits, s.RemoteAddr())
	}
}

func runC16(t *testing.T, sci interface{}, keepLog bool) *hx.Outcome {
	sc := sci.(*C16Scenario)
	if sc.Echo {
		return runC16Echo(t, sc, keepLog)
	}
	var mgr *stcp.SessionMgr
	var maxSeen int32
	started := false
	anyDirect := false
	var states []*connState
	// a clean local close: nothing but the application's Close ends the session and the peer reads all along
	clean := func(cs *connState) bool {
		p := cs.plan
		return p.End == "local-close" && p.SecondEnd == "" && p.ClientReads && p.ReadDelayMs == 0 && p.DeadlineFault == 0 && p.idle() < sc.ReadTO && cs.handlerEnded == ""
	}
	// the shorter of the two configured timeouts: nothing that works without a timeout may take that long
	grace := time.Duration(sc.ReadTO) * time.Millisecond
	if w := time.Duration(sc.WriteTO) * time.Millisecond; w < grace {
		grace = w
	}
	advance := func(s *simrt.Sim, to time.Duration) {
		// every goroutine is blocked and the clock is about to jump to `to`. Bounded liveness, stated against the simulated
		// clock: what needs no timeout must not still be pending a whole timeout period later.
		if sc.AccErrs == 0 && len(sc.Conns) <= int(sc.MaxConn) {
			// the accept loop must serve every connection made (none is surplus, no accept error makes it back off): a
			// connection still without a session a timeout period after it was dialled is waiting for another session to end
			for ci, cs := range states {
				if !cs.plan.Direct && !cs.started && cs.client != nil && to-cs.dialAt >= grace {
					s.Fail("accept-loop-stalled", "client-%d was dialled at %v, it is not surplus and no accept error was injected, yet it has no session and nothing can run until %v: the accept loop is not serving connections while a session runs", ci, cs.dialAt, to)
					return
				}
			}
		}
		for ci, cs := range states {
			// a session whose application has called Close, whose peer reads and which nothing else disturbs ends by that
			// Close - not by the read or write timeout that happens to come next
			if cs.closeReq && cs.exits == 0 && clean(cs) && to-cs.closeAt >= grace {
				s.Fail("local-close-waits-for-a-timeout", "client-%d: the application called Close on the session at %v, the peer reads, yet the session is still not over and nothing can run until %v (a whole timeout period later)", ci, cs.closeAt, to)
			}
		}
	}
	observe := func(s *simrt.Sim) {
		if !started {
			return
		}
		if c := mgr.ConnCount(); c > maxSeen {
			maxSeen = c
		}
		if c := mgr.ConnCount(); c > sc.MaxConn && !anyDirect { // sessions the application starts itself are not subject to the accept loop's limit
			s.Fail("count-exceeds-max", "connection count %d exceeds the configured maximum %d", c, sc.MaxConn)
		}
		if c := mgr.ConnCount(); c < 0 {
			s.Fail("count-negative", "connection count %d", c)
		}
	}

	main := func(s *simrt.Sim) {
		nw := simnet.NewNet(s, sc.BufSize)
		defer nw.Uninstall()
		h := &handler{s: s, conns: map[string]*connState{}}
		h.own = &handler{s: s, conns: h.conns, isOwn: true}
		mgr = stcp.NewSessionMgr(h, stcp.WithReadTimeout(time.Duration(sc.ReadTO)*time.Millisecond), stcp.WithWriteTimeout(time.Duration(sc.WriteTO)*time.Millisecond))
		srv := stcp.NewTCPSrv("sim:1", mgr)
		errCh := srv.Start(stcp.WithMaxConn(sc.MaxConn), stcp.WithAccDelay(time.Millisecond), stcp.WithAccMaxDelay(4*time.Millisecond), stcp.WithAccMaxRetry(10))
		_ = errCh
		started = true
		// wait for the listener
		s.Block(simrt.Cur(), func() bool { return nw.Listener("sim:1") != nil }, "harness:listen")
		ln := nw.Listener("sim:1")
		for i := 0; i < sc.AccErrs; i++ {
			ln.InjectAcceptError(&simnet.Err{Msg: "accept: too many open files (injected)", Temp: true})
		}
		var all []*simrt.Task
		for ci, plan := range sc.Conns {
			ci, plan := ci, plan
			for g := 0; g < sc.DialGaps[ci]; g++ {
				simrt.Yield()
			}
			name := fmt.Sprintf("client-%d", ci)
			cs := &connState{plan: plan, dialAt: s.Now()}
			h.conns[name] = cs
			states = append(states, cs)
			if plan.Direct {
				var srvEnd *simnet.SimConn
				cs.client, srvEnd = nw.Pipe(name)
				anyDirect = true
				ds := stcp.NewSession(mgr, srvEnd)
				if plan.OwnHandler {
					ds.UpdateHandler(h.own)
					cs.ownInstalled = true
					s.Count("session-with-own-handler")
				}
				ds.Start()
				s.Count("session-started-directly")
			} else {
				cs.client = ln.Dial(name)
			}
			if plan.CloseFails {
				cs.client.Peer().CloseErr = errors.New("simnet: failed to send close notify (connection closed anyway)")
			}
			// an idle period longer than the read timeout ends the session by itself: then the stream may be cut short
			idleEnds := plan.idle() >= sc.ReadTO
			cs.faulty = plan.End != "local-close" || plan.SecondEnd != "" || !plan.ClientReads || idleEnds || plan.ReadDelayMs > 0 || plan.DeadlineFault != 0
			s.Logf("dial %s", name)
			endEvent := func(kind string) {
				switch kind {
				case "peer-close":
					cs.client.Close()
				case "reset":
					cs.client.Reset()
				case "local-close":
					if cs.sess != nil {
						if cs.exits == 0 {
							cs.closeReq, cs.closeAt = true, s.Now()
						}
						cs.sess.Close()
						s.Logf("local close %s", name)
					}
				}
			}
			// client writer: frames, then its own terminating event
			all = append(all, simrt.GoNamed(name+"/writer", func() {
				for fi, f := range plan.Frames {
					b := append([]byte{f.Kind, byte(f.Len)}, make([]byte, f.Len)...)
					if _, err := cs.client.Write(b); err != nil {
						s.Logf("%s write frame %d: %v", name, fi, err)
						return
					}
					simrt.Yield()
				}
				if plan.End == "peer-close" || plan.End == "reset" {
					for i := 0; i < plan.EndAfter; i++ {
						simrt.Yield()
					}
					endEvent(plan.End)
				}
				if plan.SecondEnd == "peer-close" || plan.SecondEnd == "reset" {
					endEvent(plan.SecondEnd)
				}
			}))
			// client reader
			if plan.ClientReads {
				all = append(all, simrt.GoNamed(name+"/reader", func() {
					if plan.ReadDelayMs > 0 {
						simtime.Sleep(time.Duration(plan.ReadDelayMs) * time.Millisecond)
						s.Count("late-reader")
					}
					buf := make([]byte, 16)
					for {
						n, err := cs.client.Read(buf)
						cs.recv = append(cs.recv, buf[:n]...)
						if err != nil {
							cs.clientErr = err
							cs.eof = err.Error() == "EOF"
							s.Logf("%s reader ends: %v after %d bytes", name, err, len(cs.recv))
							return
						}
					}
				}))
			}
			// server-side actor: sends, then the local close
			all = append(all, simrt.GoNamed(name+"/actor", func() {
				me := simrt.Cur()
				s.Block(me, func() bool { return cs.sess != nil || cs.client.PeerClosed() || cs.client.Closed() }, "harness:session")
				if cs.sess == nil {
					return
				}
				switch plan.DeadlineFault {
				case 1:
					cs.client.Peer().FailWriteDeadlineN = 1
				case 2:
					cs.client.Peer().FailReadDeadlineN = 1
				}
				if plan.IdleMs > 0 {
					simtime.Sleep(time.Duration(plan.IdleMs) * time.Millisecond)
					s.Count("idle-before-send")
				}
				for _, n := range plan.ServerSends {
					if n < 0 {
						simtime.Sleep(time.Duration(-n) * time.Millisecond)
						s.Count("idle-between-sends")
						continue
					}
					if n > 4096 {
						s.Count("send-of-more-than-4096-bytes")
					}
					seq := byte(cs.accepted[1])
					if err := cs.sess.Send(chunk(1, seq, n)); err == nil {
						cs.accepted[1]++
					} else {
						s.Logf("%s actor send refused: %v", name, err)
					}
					simrt.Yield()
				}
				if plan.End == "local-close" {
					for i := 0; i < plan.EndAfter; i++ {
						simrt.Yield()
					}
					endEvent("local-close")
				}
				if plan.SecondEnd == "local-close" {
					endEvent("local-close")
				}
			}))
		}
		hx.WaitDone(s, all...)
		// every session must be over by now or end by its timeouts: wait until all session goroutines are done
		s.Block(simrt.Cur(), func() bool {
			for _, tk := range s.Tasks() {
				if strings.HasPrefix(tk.Name, "go@") && tk.State() != simrt.Done && !(tk.Blocked() && strings.Contains(tk.WaitDesc(), "net.accept")) {
					return false
				}
			}
			return true
		}, "harness:sessions-over")
		if c := mgr.ConnCount(); c != 0 {
			s.Fail("count-not-balanced", "all sessions are over, connection count is %d instead of 0", c)
		}
		for ci, cs := range states {
			name := fmt.Sprintf("client-%d", ci)
			if cs.started && cs.exits != 1 {
				s.Fail("exit-callback-count", "%s: session started, OnExit ran %d times", name, cs.exits)
			}
			if !cs.started && cs.exits != 0 {
				s.Fail("exit-callback-count", "%s: no session started, OnExit ran %d times", name, cs.exits)
			}
			if !cs.client.PeerClosed() {
				s.Fail("connection-not-closed", "%s: the server never closed its end (session started: %v)", name, cs.started)
			}
			if !cs.started {
				s.Count("connection-refused-over-max")
				if len(sc.Conns) <= int(sc.MaxConn) {
					// no more connections than the maximum were ever made: none of them was surplus
					s.Fail("non-surplus-connection-refused", "%s was closed without a session although only %d connection(s) were made and the maximum is %d", name, len(sc.Conns), sc.MaxConn)
				}
				continue
			}
			if !cs.plan.ClientReads {
				continue
			}
			// what the peer received: per source, chunks 0..k without gaps, each intact
			got, perr := parseChunks(cs.recv)
			if perr != nil {
				s.Fail("stream-corrupt", "%s: %v", name, perr)
				continue
			}
			for src := 0; src < 2; src++ {
				if got[src] > cs.accepted[src] {
					s.Fail("stream-invented-data", "%s: peer received %d chunks of source %d, only %d were accepted by Send", name, got[src], src, cs.accepted[src])
				}
			}
			if !cs.faulty && cs.handlerEnded == "" {
				s.Count("clean-local-close")
				if got[0] != cs.accepted[0] || got[1] != cs.accepted[1] || !cs.eof {
					s.Fail("data-lost-before-local-close", "%s: Send accepted %d+%d chunks before the local Close, the reading peer got %d+%d (eof=%v, err=%v)",
						name, cs.accepted[0], cs.accepted[1], got[0], got[1], cs.eof, cs.clientErr)
				}
			}
		}
		_ = srv.Close()
		s.Block(simrt.Cur(), func() bool {
			for _, tk := range s.Tasks() {
				if strings.HasPrefix(tk.Name, "go@") && tk.State() != simrt.Done {
					return false
				}
			}
			return true
		}, "harness:accept-loop-over")
	}

	cfg := sc.Knobs.Config(keepLog, 200000)
	res := hx.RunSim(t, cfg, func(s *simrt.Sim) { s.OnQuiescent, s.OnAdvance = observe, advance }, main)
	o := hx.FromResult(res)
	if o.Class == "" && res.Stuck {
		o.Class, o.Msg = "session-never-ends", "session loops, accept loop or clients never finished: "+hx.Unfinished(res)
	}
	if o.Counts == nil {
		o.Counts = map[string]int{}
	}
	if maxSeen >= sc.MaxConn {
		o.Counts["count-reached-max"]++
	}
	return o
}

// parseChunks checks the received stream: intact chunks, per source consecutive sequence numbers; a trailing partial chunk is allowed.
func parseChunks(b []byte) (n [2]int, err error) {
	for len(b) >= 4 {
		src, seq, ln := b[0], b[1], int(b[2])<<8|int(b[3])
		if src > 1 {
			return n, fmt.Errorf("bad source byte %d", src)
		}
		if int(seq) != n[src] {
			return n, fmt.Errorf("source %d: chunk %d arrived where chunk %d was expected (reordered, duplicated or lost)", src, seq, n[src])
		}
		if len(b) < 4+ln {
			return n, nil // cut inside a chunk
		}
		for _, x := range b[4 : 4+ln] {
			if x != seq {
				return n, fmt.Errorf("source %d chunk %d: payload corrupt", src, seq)
			}
		}
		n[src]++
		b = b[4+ln:]
	}
	return n, nil
}

func TestC16(t *testing.T) {
	hx.Main(t, hx.Prop{
		ID:          "C16",
		Draw:        drawC16,
		NewScenario: func() interface{} { return &C16Scenario{} },
		Run:         runC16,
		Real:        []string{"stcp.Server (accept loop), stcp.SessionMgr, stcp.EchoMgr / stcp.Echo (count clause), stcp.Session (loopSend, loopReceive, quit, recovery), syncx/pipe/q (simgen-transformed)", "io.ReadFull", "go.uber.org/atomic", "ulog/zap (silenced)"},
		Stubs:       []string{"net (simnet: listener the harness dials, full-duplex bounded byte pipes, deadlines on the simulated clock, reset / peer close / temporary accept errors)", "time (simtime)", "sync (simsync)", "goroutine scheduling (simrt)"},
		Rule: "scenario = max connections {0,1,2,3,8} (0: every connection is surplus) x read/write timeouts x pipe buffer {8,64,4096} x 1-4 connections, each with 0-4 client frames (echo / swallow / handler error / handler panic), a reading, late-reading or non-reading peer, a handler of the manager's or of the session's own, 0-5 server Sends of 1-9000 bytes with optional pauses of 10 ms-10 s between them, a terminating event (local Close, peer close, reset, silence -> timeout) after a drawn delay and optionally a second racing one, temporary accept errors x scheduler knobs/tape; " +
			"non-trivial = >=2 tasks and >=1 switch; distinct = distinct event-log hash",
		Probes:      []string{"clean-local-close", "connection-refused-over-max", "count-reached-max", "net-accept-error-injected", "net-read-timeout", "net-write-timeout", "net-reset", "idle-before-send", "idle-between-sends", "send-of-more-than-4096-bytes", "net-close-returns-error", "session-started-directly", "session-with-own-handler", "late-reader", "echo-manager-run", "net-set-write-deadline-fails", "net-set-read-deadline-fails"},
		Assumptions: []string{"simnet close semantics: the peer reads what was written before the close, then EOF; a reset drops buffered data", "TLS, OS socket buffers and TCP half-close are out of scope"},
	})
}
