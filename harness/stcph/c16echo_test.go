package stcph

import (
	"fmt"
	"strings"
	"testing"
	"time"

	"github.com/pinealctx/neptune/stcp"
	"verif.local/harness/hx"
	"verif.local/simrt"
	simnet "verif.local/simrt/simnet"
)

// The request/response sessions of stcp/echo.go: the application's handler owns the session (no loops, no exit callback), the
// manager only counts. What C16 says about them is the accept loop's clause: the count never exceeds the maximum, surplus
// connections - and only those - are closed on accept, and the count is back where it was once every handler has released
// its session. The handler here reads frames, echoes the 'e' ones, and on any error closes and releases.

type echoHandler struct {
	s     *simrt.Sim
	conns map[string]*connState
	mgr   **stcp.EchoMgr
	runs  int
}

func (h *echoHandler) RunEcho(e *stcp.Echo) {
	cs := h.conns[e.RemoteAddr()]
	h.runs++
	if cs == nil {
		h.s.Fail("unknown-session", "RunEcho called for unknown remote %q", e.RemoteAddr())
		e.Close()
		e.ReleaseRef()
		return
	}
	cs.started = true
	h.s.Logf("echo session started %s", e.RemoteAddr())
	defer func() {
		e.Close()
		e.ReleaseRef()
		cs.exits++
		h.s.Logf("echo session released %s", e.RemoteAddr())
	}()
	for {
		var hdr [2]byte
		if err := e.Read(hdr[:]); err != nil {
			return
		}
		payload := make([]byte, int(hdr[1]))
		if len(payload) > 0 {
			if err := e.Read(payload); err != nil {
				return
			}
		}
		if hdr[0] == 'e' {
			seq := byte(cs.accepted[0])
			if err := e.Send(chunk(0, seq, len(payload))); err != nil {
				return
			}
			cs.accepted[0]++
		}
	}
}

func runC16Echo(t *testing.T, sc *C16Scenario, keepLog bool) *hx.Outcome {
	var mgr *stcp.EchoMgr
	var maxSeen int32
	started := false
	observe := func(s *simrt.Sim) {
		if !started {
			return
		}
		c := mgr.ConnCount()
		if c > maxSeen {
			maxSeen = c
		}
		if c > sc.MaxConn {
			s.Fail("count-exceeds-max", "echo manager: connection count %d exceeds the configured maximum %d", c, sc.MaxConn)
		}
		if c < 0 {
			s.Fail("count-negative", "echo manager: connection count %d", c)
		}
	}
	main := func(s *simrt.Sim) {
		nw := simnet.NewNet(s, sc.BufSize)
		defer nw.Uninstall()
		h := &echoHandler{s: s, conns: map[string]*connState{}}
		mgr = stcp.NewEchoMgr(h, stcp.WithReadTimeout(time.Duration(sc.ReadTO)*time.Millisecond), stcp.WithWriteTimeout(time.Duration(sc.WriteTO)*time.Millisecond))
		srv := stcp.NewTCPSrv("sim:1", mgr)
		_ = srv.Start(stcp.WithMaxConn(sc.MaxConn), stcp.WithAccDelay(time.Millisecond), stcp.WithAccMaxDelay(4*time.Millisecond), stcp.WithAccMaxRetry(10))
		started = true
		s.Block(simrt.Cur(), func() bool { return nw.Listener("sim:1") != nil }, "harness:listen")
		ln := nw.Listener("sim:1")
		var all []*simrt.Task
		var states []*connState
		for ci, plan := range sc.Conns {
			ci, plan := ci, plan
			for g := 0; g < sc.DialGaps[ci]; g++ {
				simrt.Yield()
			}
			name := fmt.Sprintf("client-%d", ci)
			cs := &connState{plan: plan}
			h.conns[name] = cs
			states = append(states, cs)
			cs.client = ln.Dial(name)
			s.Logf("dial %s", name)
			all = append(all, simrt.GoNamed(name+"/writer", func() {
				for fi, f := range plan.Frames {
					k := f.Kind
					if k != 'e' {
						k = 'n'
					}
					b := append([]byte{k, byte(f.Len)}, make([]byte, f.Len)...)
					if _, err := cs.client.Write(b); err != nil {
						s.Logf("%s write frame %d: %v", name, fi, err)
						return
					}
					simrt.Yield()
				}
				for i := 0; i < plan.EndAfter; i++ {
					simrt.Yield()
				}
				switch plan.End {
				case "peer-close":
					cs.client.Close()
				case "reset":
					cs.client.Reset()
				}
				// otherwise the client falls silent: the handler's read times out
			}))
			if plan.ClientReads {
				all = append(all, simrt.GoNamed(name+"/reader", func() {
					buf := make([]byte, 16)
					for {
						n, err := cs.client.Read(buf)
						cs.recv = append(cs.recv, buf[:n]...)
						if err != nil {
							return
						}
					}
				}))
			}
		}
		hx.WaitDone(s, all...)
		s.Block(simrt.Cur(), func() bool {
			for _, tk := range s.Tasks() {
				if strings.HasPrefix(tk.Name, "go@") && tk.State() != simrt.Done && !(tk.Blocked() && strings.Contains(tk.WaitDesc(), "net.accept")) {
					return false
				}
			}
			return true
		}, "harness:echo-sessions-over")
		if c := mgr.ConnCount(); c != 0 {
			s.Fail("count-not-balanced", "echo manager: every handler has released its session, connection count is %d instead of 0", c)
		}
		for ci, cs := range states {
			name := fmt.Sprintf("client-%d", ci)
			if !cs.client.PeerClosed() {
				s.Fail("connection-not-closed", "%s: the server never closed its end (handler started: %v)", name, cs.started)
			}
			if !cs.started {
				s.Count("connection-refused-over-max")
				if len(sc.Conns) <= int(sc.MaxConn) {
					s.Fail("non-surplus-connection-refused", "%s was closed without a handler although only %d connection(s) were made and the maximum is %d", name, len(sc.Conns), sc.MaxConn)
				}
				continue
			}
			if cs.plan.ClientReads {
				got, perr := parseChunks(cs.recv)
				if perr != nil {
					s.Fail("stream-corrupt", "%s: %v", name, perr)
				} else if got[0] > cs.accepted[0] {
					s.Fail("stream-invented-data", "%s: peer received %d chunks, %d were sent", name, got[0], cs.accepted[0])
				} else if cs.plan.End != "peer-close" && cs.plan.End != "reset" && got[0] != cs.accepted[0] {
					// the client kept reading and never closed or reset: every reply whose Send returned nil was written in full
					// before the handler closed the connection
					s.Fail("echo-reply-lost", "%s: the handler's Send returned nil for %d replies, the reading peer received %d before the connection was closed", name, cs.accepted[0], got[0])
				}
			}
		}
		_ = srv.Close()
		s.Block(simrt.Cur(), func() bool {
			for _, tk := range s.Tasks() {
				if strings.HasPrefix(tk.Name, "go@") && tk.State() != simrt.Done {
					return false
				}
			}
			return true
		}, "harness:accept-loop-over")
	}
	res := hx.RunSim(t, sc.Knobs.Config(keepLog, 200000), func(s *simrt.Sim) { s.OnQuiescent = observe }, main)
	o := hx.FromResult(res)
	if o.Class == "" && res.Stuck {
		o.Class, o.Msg = "session-never-ends", "echo handlers, accept loop or clients never finished: "+hx.Unfinished(res)
	}
	if o.Counts == nil {
		o.Counts = map[string]int{}
	}
	o.Counts["echo-manager-run"]++
	if maxSeen >= sc.MaxConn {
		o.Counts["count-reached-max"]++
	}
	return o
}
