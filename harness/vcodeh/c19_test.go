// Package vcodeh holds the harness for C19 (verification codes).
//
// Sequential: the clock is the simulated one (simtime.Manual, monotone whole-second advances kept
// off the thresholds), crypto/rand is the seeded simcrand stream, the SMS sender is a stub that
// captures the code. The returned hash comes from a UUIDv1 made inside an un-shimmed dependency: it is
// treated as an opaque token and never written to the log.
package vcodeh

import (
	"fmt"
	"strings"
	"testing"
	"time"

	"github.com/pinealctx/neptune/tex"
	"github.com/pinealctx/neptune/vcode"
	"pgregory.net/rapid"
	"verif.local/harness/hx"
	simcrand "verif.local/simrt/simcrand"
	simsync "verif.local/simrt/simsync"
	simtime "verif.local/simrt/simtime"
)

type vOp struct {
	Op       string `json:"op"` // send | verify | adv
	Pair     int    `json:"pair"`
	Code     string `json:"code"`          // verify: right | wrong | other (another pair's code)
	Hash     string `json:"hash"`          // verify: right | wrong | other | stale (hash of the previous send to this pair)
	As       int    `json:"as"`            // verify: pair whose (area, phone) is presented (-1 = same as Pair)
	Rep      int    `json:"rep,omitempty"` // send / verify: the operation is issued this many times in a row (0 = once): counters past 255 / 256
	AdvSec   int    `json:"adv_sec"`       // adv
	AdvToKey string `json:"adv_to"`        // adv: "", or jump relative to a threshold: ttl- ttl+ min- min+ cnt- cnt+ (just before / after)
}

type C19Scenario struct {
	Class    string `json:"class"` // logic | alphabet
	Mock     bool   `json:"mock"`
	CodeLen  int    `json:"code_len"`
	TTLHalf  int    `json:"ttl_half_s"` // thresholds are (n + 0.5) s, so whole-second clocks never sit on them
	MinHalf  int    `json:"min_half_s"`
	CntHalf  int    `json:"cnt_half_s"`
	MaxCount int    `json:"max_count"`
	MaxVer   int    `json:"max_verify"`
	Cache    int64  `json:"cache_size"` // record store capacity; small values put records under eviction pressure
	Ops      []vOp  `json:"ops"`
	Seed     int64  `json:"seed"`
	NCodes   int    `json:"ncodes"`
}

// (area, phone) pairs; some collide when concatenated without a separator
var pairs = [][2]string{{"86", "13800001111"}, {"1", "2025550123"}, {"1", "23"}, {"12", "3"}, {"86", "7"}, {"8", "67"}}

func drawC19(rt *rapid.T) interface{} {
	sc := &C19Scenario{}
	sc.Class = rapid.SampledFrom([]string{"logic", "logic", "logic", "logic", "logic", "logic", "logic", "alphabet"}).Draw(rt, "class")
	sc.Seed = rapid.Int64().Draw(rt, "seed")
	sc.CodeLen = rapid.IntRange(1, 8).Draw(rt, "codelen")
	if sc.Class == "alphabet" {
		sc.NCodes = rapid.IntRange(2000, 3000).Draw(rt, "ncodes")
		return sc
	}
	sc.Mock = rapid.Bool().Draw(rt, "mock")
	sc.TTLHalf = rapid.SampledFrom([]int{0, 5, 60, 1000000}).Draw(rt, "ttl")
	sc.MinHalf = rapid.SampledFrom([]int{-1, 0, 2, 30, 1000000}).Draw(rt, "min")
	sc.CntHalf = rapid.SampledFrom([]int{0, 10, 100, 1000000}).Draw(rt, "cnt")
	sc.MaxCount = rapid.SampledFrom([]int{0, 1, 2, 3, 10}).Draw(rt, "maxcount")
	sc.MaxVer = rapid.SampledFrom([]int{0, 1, 2, 3, 5}).Draw(rt, "maxver")
	// 1 in 16: histories with long runs of one operation (more than 256 attempts on one code, more than 256 sends in one
	// window) - a bound must still hold when a counter has passed the range of a byte
	long := rapid.IntRange(0, 15).Draw(rt, "long") == 0
	if long {
		sc.MaxCount = rapid.SampledFrom([]int{3, 10, 300}).Draw(rt, "maxcount-long")
		sc.MaxVer = rapid.SampledFrom([]int{1, 3, 5, 300}).Draw(rt, "maxver-long")
	}
	sc.Cache = rapid.SampledFrom([]int64{1000, 1000, 1000, 2, 3}).Draw(rt, "cachesize")
	np := rapid.IntRange(1, 3).Draw(rt, "npairs")
	if sc.Cache < 10 {
		np = rapid.IntRange(2, 5).Draw(rt, "npairs-pressure")
	}
	var used []int
	for i := 0; i < np; i++ {
		used = append(used, rapid.IntRange(0, len(pairs)-1).Draw(rt, "pair"))
	}
	n := rapid.IntRange(1, hx.Pick(30, 80)).Draw(rt, "nops")
	for i := 0; i < n; i++ {
		op := vOp{Op: rapid.SampledFrom([]string{"send", "send", "verify", "verify", "verify", "adv"}).Draw(rt, "op"), As: -1}
		op.Pair = rapid.SampledFrom(used).Draw(rt, "p")
		switch op.Op {
		case "verify":
			op.Code = rapid.SampledFrom([]string{"right", "right", "right", "wrong", "other"}).Draw(rt, "code")
			op.Hash = rapid.SampledFrom([]string{"right", "right", "right", "wrong", "other", "stale"}).Draw(rt, "hash")
			if rapid.IntRange(0, 5).Draw(rt, "as") == 0 {
				op.As = rapid.IntRange(0, len(pairs)-1).Draw(rt, "aspair")
			}
		case "adv":
			op.AdvSec = rapid.SampledFrom([]int{0, 1, 3, 10, 100}).Draw(rt, "adv")
			op.AdvToKey = rapid.SampledFrom([]string{"", "", "ttl-", "ttl+", "min-", "min+", "cnt-", "cnt+"}).Draw(rt, "advto")
		}
		if long && op.Op != "adv" && rapid.IntRange(0, 3).Draw(rt, "rep") == 0 {
			op.Rep = rapid.SampledFrom([]int{250, 255, 256, 257, 300, 515}).Draw(rt, "reps")
		}
		sc.Ops = append(sc.Ops, op)
	}
	return sc
}

type fakeSMS struct{ last map[string]string }

func (f *fakeSMS) SendCode(areaCode, phone, code string) error {
	f.last[areaCode+"|"+phone] = code
	return nil
}

func half(n int) time.Duration {
	if n < 0 {
		return 0
	}
	return time.Duration(n)*time.Second + 500*time.Millisecond
}

type mRec struct {
	code, hash, prevHash string
	lastSend             int64 // seconds
	windowStart          int64
	inWindow             int
	attempts             int
}

func runC19(t *testing.T, sci interface{}, keepLog bool) *hx.Outcome {
	sc := sci.(*C19Scenario)
	o := &hx.Outcome{Counts: map[string]int{}}
	var log []string
	fail := func(class, f string, a ...interface{}) {
		if o.Class == "" {
			o.Class, o.Msg = class, fmt.Sprintf(f, a...)
			log = append(log, "VIOLATION "+class+": "+o.Msg)
		}
	}
	now := int64(1700000000)
	simtime.Manual = func() time.Time { return time.Unix(now, 0) }
	simcrand.SimSeed(sc.Seed)
	simsync.SingleGoroutine = true
	defer func() { simtime.Manual, simsync.SingleGoroutine = nil, false }()
	sms := &fakeSMS{last: map[string]string{}}

	finish := func() *hx.Outcome {
		o.LogHash = hashLines(log)
		if keepLog {
			o.Log = log
		}
		o.Steps = len(log)
		o.Counts["class-"+sc.Class]++
		return o
	}

	if sc.Class == "alphabet" {
		cfg := &vcode.Config{CacheSize: 100000, Mock: false, CodeLen: sc.CodeLen, TTL: tex.Duration(time.Hour), MinInterval: 0, CounterDuration: tex.Duration(time.Hour), MaxCount: 10, MaxVerifyCount: 3}
		l := vcode.NewSimpleLogic(cfg, sms, nil)
		seen := map[byte]int{}
		for i := 0; i < sc.NCodes; i++ {
			phone := fmt.Sprintf("139%08d", i)
			if _, err := l.SendSMSCode("86", phone); err != nil {
				fail("send-refused", "first send to a fresh phone refused: %v", err)
				return finish()
			}
			code := sms.last["86|"+phone]
			if len(code) != sc.CodeLen {
				fail("wrong-code-length", "code %q has length %d, configured %d", code, len(code), sc.CodeLen)
				return finish()
			}
			for j := 0; j < len(code); j++ {
				seen[code[j]]++
			}
		}
		var missing []string
		for c := byte('0'); c <= '9'; c++ {
			if seen[c] == 0 {
				missing = append(missing, string(c))
			}
		}
		for c := range seen {
			if c < '0' || c > '9' {
				fail("code-outside-alphabet", "generated codes contain %q", string(c))
			}
		}
		log = append(log, fmt.Sprintf("alphabet: %d codes of length %d, digit counts %v", sc.NCodes, sc.CodeLen, seen))
		if len(missing) > 0 {
			fail("alphabet-character-never-generated", "%d codes of length %d never contained %s", sc.NCodes, sc.CodeLen, strings.Join(missing, ","))
		}
		o.Nontrivial = true
		return finish()
	}

	if sc.Cache == 0 {
		sc.Cache = 1000
	}
	cfg := &vcode.Config{CacheSize: sc.Cache, Mock: sc.Mock, CodeLen: sc.CodeLen, TTL: tex.Duration(half(sc.TTLHalf)), MinInterval: tex.Duration(half(sc.MinHalf)),
		CounterDuration: tex.Duration(half(sc.CntHalf)), MaxCount: sc.MaxCount, MaxVerifyCount: sc.MaxVer}
	l := vcode.NewSimpleLogic(cfg, sms, nil)
	recs := map[int]*mRec{}
	hashName := map[string]string{} // opaque hash -> stable name for the log
	hname := func(h string) string {
		if h == "" {
			return "-"
		}
		if n, ok := hashName[h]; ok {
			return n
		}
		n := fmt.Sprintf("hash#%d", len(hashName)+1)
		hashName[h] = n
		return n
	}
	ttl, minI, cnt := half(sc.TTLHalf), half(sc.MinHalf), half(sc.CntHalf)
	since := func(t0 int64) time.Duration { return time.Duration(now-t0) * time.Second }

	// eviction pressure (small record store): a record may be lost once at least `Cache` other pairs were touched (sent to, or
	// looked up by a verification) after its own last touch; from then on the pair is "tainted" and only exercised, not judged
	var touchSeq int64
	lastTouch := map[int]int64{}
	tainted := map[int]bool{}
	touch := func(pi int) { touchSeq++; lastTouch[pi] = touchSeq }
	retaint := func() {
		for pi := range recs {
			n := 0
			for k := 0; k < len(pairs); k++ {
				if k != pi && lastTouch[k] > lastTouch[pi] {
					n++
				}
			}
			if int64(n) >= sc.Cache && !tainted[pi] {
				tainted[pi] = true
				o.Counts["pair-under-eviction-pressure"]++
			}
		}
	}
	// runs of one operation are spelled out
	var ops []vOp
	for _, op := range sc.Ops {
		ops = append(ops, op)
		for k := 1; k < op.Rep; k++ {
			ops = append(ops, op)
		}
		if op.Rep > 255 {
			o.Counts["run-of-more-than-255-"+op.Op]++
		}
	}
	for i, op := range ops {
		if o.Class != "" {
			break
		}
		retaint()
		p := pairs[op.Pair]
		r := recs[op.Pair]
		if op.Op != "adv" {
			judged := op.Pair
			if op.Op == "verify" && op.As >= 0 {
				judged = op.As
			}
			if tainted[op.Pair] || tainted[judged] {
				// exercise only
				if op.Op == "send" {
					hash, err := l.SendSMSCode(p[0], p[1])
					log = append(log, fmt.Sprintf("%d t=%d send %s/%s (not judged: eviction pressure) -> %s %v", i, now-1700000000, p[0], p[1], hname(hash), err))
					if err == nil {
						touch(op.Pair)
					}
				} else {
					err := l.VerifySMSCode(pairs[judged][0], pairs[judged][1], "000", "nohash")
					log = append(log, fmt.Sprintf("%d t=%d verify %s/%s (not judged: eviction pressure) -> %v", i, now-1700000000, pairs[judged][0], pairs[judged][1], err))
					if err == nil {
						fail("verification-succeeded-wrongly", "%s/%s: verification succeeded with a made-up code and hash", pairs[judged][0], pairs[judged][1])
					}
					if err != nil && !strings.Contains(err.Error(), "not.exist") {
						touch(judged)
						// the attempt counts against the record it was presented to, judged or not
						if jr := recs[judged]; jr != nil {
							jr.attempts++
						}
					}
				}
				continue
			}
		}
		switch op.Op {
		case "adv":
			// jump to just before / after a threshold measured from the pair's last send / window start
			target := int64(-1)
			if r != nil {
				switch op.AdvToKey {
				case "ttl-":
					target = r.lastSend + int64(sc.TTLHalf)
				case "ttl+":
					target = r.lastSend + int64(sc.TTLHalf) + 1
				case "min-":
					target = r.lastSend + int64(sc.MinHalf)
				case "min+":
					target = r.lastSend + int64(sc.MinHalf) + 1
				case "cnt-":
					target = r.windowStart + int64(sc.CntHalf)
				case "cnt+":
					target = r.windowStart + int64(sc.CntHalf) + 1
				}
			}
			if target > now && target-now < 3000000 {
				now = target
				o.Counts["advance-to-threshold"]++
			} else {
				now += int64(op.AdvSec)
			}
			log = append(log, fmt.Sprintf("%d t=%d adv", i, now-1700000000))
		case "send":
			hash, err := l.SendSMSCode(p[0], p[1])
			log = append(log, fmt.Sprintf("%d t=%d send %s/%s -> %s %v", i, now-1700000000, p[0], p[1], hname(hash), err))
			tooSoon := r != nil && since(r.lastSend) < minI
			switch {
			case tooSoon:
				o.Counts["send-too-soon"]++
				if err == nil {
					fail("send-inside-min-interval-accepted", "send %ds after the previous one was accepted, minimum interval is %v", now-r.lastSend, minI)
				}
				continue
			case r == nil || since(r.windowStart) > cnt:
				// a new counting window starts with this send
				if err != nil {
					fail("send-refused", "first send of a window refused: %v", err)
					continue
				}
				if r == nil {
					r = &mRec{}
					recs[op.Pair] = r
				}
				r.windowStart, r.inWindow = now, 0
			default:
				switch {
				case r.inWindow < sc.MaxCount:
					if err != nil {
						fail("send-refused-below-count-limit", "send number %d of the window refused (%v), limit is %d", r.inWindow+1, err, sc.MaxCount)
						continue
					}
				case r.inWindow == sc.MaxCount:
					// the statement leaves the boundary send open: either answer
					if err != nil {
						o.Counts["send-refused-at-boundary"]++
						continue
					}
				default:
					o.Counts["send-over-count-limit"]++
					if err == nil {
						fail("send-beyond-count-limit-accepted", "send number %d of the window accepted, limit is %d", r.inWindow+1, sc.MaxCount)
					}
					continue
				}
			}
			if err != nil {
				continue
			}
			// accepted: learn code and hash
			var code string
			if sc.Mock {
				code = p[1]
				if len(code) >= sc.CodeLen {
					code = code[len(code)-sc.CodeLen:]
				} else {
					code = strings.Repeat("0", sc.CodeLen-len(code)) + code
				}
			} else {
				code = sms.last[p[0]+"|"+p[1]]
			}
			if len(code) != sc.CodeLen {
				fail("wrong-code-length", "code %q has length %d, configured %d", code, len(code), sc.CodeLen)
			}
			if hash == "" {
				fail("empty-hash", "send accepted but no hash returned")
			}
			r.prevHash = r.hash
			r.code, r.hash, r.lastSend, r.attempts = code, hash, now, 0
			r.inWindow++
			touch(op.Pair)
			o.Counts["send-accepted"]++
		case "verify":
			if r == nil || r.code == "" {
				// nothing was ever sent to this pair: any verification must fail
				err := l.VerifySMSCode(p[0], p[1], "123456", "nohash")
				log = append(log, fmt.Sprintf("%d t=%d verify %s/%s before any send -> %v", i, now-1700000000, p[0], p[1], err))
				if err == nil {
					fail("verify-without-send-succeeded", "verification succeeded although nothing was sent to %s/%s", p[0], p[1])
				}
				continue
			}
			code, hash := r.code, r.hash
			right := true
			switch op.Code {
			case "wrong":
				code, right = wrongCode(r.code), false
			case "other":
				for k := 0; k < len(pairs); k++ { // fixed order: map iteration would make the choice irreproducible
					if x := recs[k]; x != nil && k != op.Pair && x.code != "" && x.code != r.code {
						code, right = x.code, false
						break
					}
				}
			}
			switch op.Hash {
			case "wrong":
				hash, right = "deadbeefdeadbeefdeadbeefdeadbeef", false
			case "other":
				for k := 0; k < len(pairs); k++ {
					if x := recs[k]; x != nil && k != op.Pair && x.hash != "" {
						hash, right = x.hash, false
						break
					}
				}
			case "stale":
				if r.prevHash != "" {
					hash, right = r.prevHash, false
				}
			}
			area, phone := p[0], p[1]
			target := r
			if op.As >= 0 && op.As != op.Pair {
				// present the code and hash of Pair under another (area, phone): judged against that pair's own record
				area, phone = pairs[op.As][0], pairs[op.As][1]
				target = recs[op.As]
				// what counts is whether the presented code and hash are the ones sent to the presented pair
				right = target != nil && target.code == code && target.hash == hash
				o.Counts["verify-as-other-pair"]++
			}
			err := l.VerifySMSCode(area, phone, code, hash)
			log = append(log, fmt.Sprintf("%d t=%d verify %s/%s code=%s(%s) hash=%s(%s) -> %v", i, now-1700000000, area, phone, op.Code, code, op.Hash, hname(hash), err))
			if target == nil || target.code == "" {
				if err == nil {
					fail("verify-foreign-pair-succeeded", "code and hash sent to %s/%s verified for %s/%s, to which nothing was sent", p[0], p[1], area, phone)
				}
				continue
			}
			target.attempts++
			if err == nil || !strings.Contains(err.Error(), "not.exist") {
				touch(map[bool]int{true: op.As, false: op.Pair}[op.As >= 0 && op.As != op.Pair])
			}
			overLimit := target.attempts > sc.MaxVer
			alive := since(target.lastSend) < ttl
			if overLimit {
				o.Counts["verify-over-attempt-limit"]++
			}
			if !alive {
				o.Counts["verify-after-lifetime"]++
			}
			want := right && !overLimit && alive
			if want && err != nil {
				fail("right-code-rejected", "%s/%s: the sent code and its hash were rejected (%v): attempt %d of %d, %ds after the send, lifetime %v", area, phone, err, target.attempts, sc.MaxVer, now-target.lastSend, ttl)
			}
			if !want && err == nil {
				fail("verification-succeeded-wrongly", "%s/%s: verification succeeded with code=%s hash=%s, attempt %d of %d, %ds after the send (lifetime %v)", area, phone, op.Code, op.Hash, target.attempts, sc.MaxVer, now-target.lastSend, ttl)
			}
			if want {
				o.Counts["verify-ok"]++
			}
		}
	}
	o.Nontrivial = len(sc.Ops) >= 3
	o.SimTimeNs = (now - 1700000000) * 1e9
	return finish()
}

func wrongCode(c string) string {
	b := []byte(c)
	if b[0] == '9' {
		b[0] = '8'
	} else {
		b[0]++
	}
	return string(b)
}

func hashLines(l []string) string {
	var h uint64 = 14695981039346656037
	for _, s := range l {
		for i := 0; i < len(s); i++ {
			h ^= uint64(s[i])
			h *= 1099511628211
		}
		h ^= 0xff
		h *= 1099511628211
	}
	return fmt.Sprintf("%x", h)
}

func TestC19(t *testing.T) {
	hx.Main(t, hx.Prop{
		ID:          "C19",
		Draw:        drawC19,
		NewScenario: func() interface{} { return &C19Scenario{} },
		Run:         runC19,
		Real:        []string{"vcode (simgen-transformed: its clock is the simulated one)", "idgen/random.SecGenNonceStr (simgen-transformed: crypto/rand is the seeded stream)", "cache.LRUCache", "satori/go.uuid + md5 (hash; un-shimmed, treated as opaque)"},
		Stubs:       []string{"time (simtime.Manual: whole-second monotone clock, thresholds at n+0.5 s)", "crypto/rand (simcrand seeded stream)", "SMS sender (captures the code)"},
		Rule: "two classes: logic = config (code length 1-8, lifetime / minimum interval / counting window at n+0.5 s incl. always and never regimes, count limit 0-10, attempt limit 0-5, mock or real sender) x 1-3 (area, phone) pairs, some of which collide when concatenated without a separator, x up to 30 ops: send, verify(right|wrong|another pair's code x right|wrong|another pair's|stale hash, optionally presented under another pair), clock advances incl. jumps to just before / after each threshold (1 in 16 histories: limits up to 300 and runs of 250-515 repetitions of one send or verify); checked against a reference record per pair; " +
			"alphabet = 2000-3000 real-sender codes: length and every digit occurs; non-trivial = >=3 ops; distinct = distinct hash of the operation/result log (hashes named by equality class)",
		Probes: []string{"class-logic", "class-alphabet", "send-accepted", "send-too-soon", "send-over-count-limit", "verify-ok", "verify-over-attempt-limit", "verify-after-lifetime", "verify-as-other-pair", "advance-to-threshold", "pair-under-eviction-pressure", "run-of-more-than-255-send", "run-of-more-than-255-verify"},
		Assumptions: []string{"the (MaxCount+1)-th send of a window may be accepted or refused (the statement leaves that boundary open); the first MaxCount must be accepted and the (MaxCount+2)-th refused",
			"every verification attempt against a sent code counts towards the attempt limit; a successful verification does not consume the code", "SMS sender failures are not injected (the statement is silent about them)"},
	})
}
