module verif.local/mutgen

go 1.19
