// mutgen enumerates small syntactic changes of one Go source file (the kind of slip a maintainer makes:
// a flipped comparison, a dropped statement, a swallowed error) and writes the i-th one.
//
//	mutgen -file f.go -list            one line per mutant: index, line, operator, detail
//	mutgen -file f.go -n i -out g.go   write the file with mutant i applied
//
// It is the source of the automated sensitivity sweep (bin/mutsweep): every mutant that still compiles is run
// against the property's check; the ones the check does not notice are examined by hand (equivalent change,
// outside the property, or a gap to close). Nothing here is part of deciding a property.
package main

import (
	"bytes"
	"flag"
	"fmt"
	"go/ast"
	"go/format"
	"go/parser"
	"go/token"
	"os"
	"strconv"
)

var opSet = "base"

type mutant struct {
	line   int
	op     string
	detail string
	apply  func()
}

func main() {
	file := flag.String("file", "", "source file")
	list := flag.Bool("list", false, "list mutants")
	n := flag.Int("n", -1, "mutant index")
	out := flag.String("out", "", "output file")
	flag.StringVar(&opSet, "ops", "base", "operator set: base (single-token changes, dropped statements) | order (adjacent statements swapped, Signal<->Broadcast, Lock<->RLock, go dropped)")
	flag.Parse()
	fset := token.NewFileSet()
	f, err := parser.ParseFile(fset, *file, nil, parser.ParseComments)
	if err != nil {
		fmt.Fprintln(os.Stderr, err)
		os.Exit(2)
	}
	ms := enumerate(fset, f)
	if *list {
		for i, m := range ms {
			fmt.Printf("%d\t%d\t%s\t%s\n", i, m.line, m.op, m.detail)
		}
		return
	}
	if *n < 0 || *n >= len(ms) {
		fmt.Fprintln(os.Stderr, "no such mutant")
		os.Exit(2)
	}
	ms[*n].apply()
	var buf bytes.Buffer
	if err := format.Node(&buf, fset, f); err != nil {
		fmt.Fprintln(os.Stderr, err)
		os.Exit(2)
	}
	if err := os.WriteFile(*out, buf.Bytes(), 0o644); err != nil {
		fmt.Fprintln(os.Stderr, err)
		os.Exit(2)
	}
}

var swaps = map[token.Token][]token.Token{
	token.LSS:  {token.LEQ},
	token.LEQ:  {token.LSS},
	token.GTR:  {token.GEQ},
	token.GEQ:  {token.GTR},
	token.EQL:  {token.NEQ},
	token.NEQ:  {token.EQL},
	token.LAND: {token.LOR},
	token.LOR:  {token.LAND},
	token.ADD:  {token.SUB},
	token.SUB:  {token.ADD},
}

func exprString(fset *token.FileSet, e ast.Node) string {
	var b bytes.Buffer
	_ = format.Node(&b, fset, e)
	s := b.String()
	s = string(bytes.ReplaceAll([]byte(s), []byte("\n"), []byte(" ")))
	s = string(bytes.ReplaceAll([]byte(s), []byte("\t"), []byte(" ")))
	if len(s) > 70 {
		s = s[:70] + "..."
	}
	return s
}

func enumerate(fset *token.FileSet, f *ast.File) []mutant {
	if opSet == "order" {
		return enumerateOrder(fset, f)
	}
	var ms []mutant
	line := func(p token.Pos) int { return fset.Position(p).Line }
	add := func(p token.Pos, op, detail string, apply func()) {
		ms = append(ms, mutant{line(p), op, detail, apply})
	}
	stmtList := func(list *[]ast.Stmt) {
		for i := range *list {
			i := i
			st := (*list)[i]
			deletable := false
			switch s := st.(type) {
			case *ast.ExprStmt, *ast.IncDecStmt, *ast.DeferStmt, *ast.SendStmt, *ast.GoStmt:
				deletable = true
			case *ast.AssignStmt:
				deletable = s.Tok != token.DEFINE
			case *ast.BranchStmt:
				deletable = s.Tok == token.BREAK || s.Tok == token.CONTINUE
			}
			if deletable {
				add(st.Pos(), "delete-stmt", exprString(fset, st), func() {
					l := *list
					nl := make([]ast.Stmt, 0, len(l))
					nl = append(nl, l[:i]...)
					nl = append(nl, l[i+1:]...)
					*list = nl
				})
			}
			if d, ok := st.(*ast.DeferStmt); ok {
				add(st.Pos(), "undefer", exprString(fset, st), func() {
					(*list)[i] = &ast.ExprStmt{X: d.Call}
				})
			}
		}
	}
	ast.Inspect(f, func(n ast.Node) bool {
		switch x := n.(type) {
		case *ast.GenDecl:
			// constants and package-level variables stay (changing a configuration constant is not a code slip)
			if x.Tok == token.CONST || x.Tok == token.IMPORT || x.Tok == token.TYPE {
				return false
			}
		case *ast.BlockStmt:
			stmtList(&x.List)
		case *ast.CaseClause:
			stmtList(&x.Body)
		case *ast.CommClause:
			stmtList(&x.Body)
		case *ast.BinaryExpr:
			for _, to := range swaps[x.Op] {
				from, to := x.Op, to
				// string concatenation has no subtraction
				add(x.OpPos, "swap-op", fmt.Sprintf("%s -> %s in %s", from, to, exprString(fset, x)), func() { x.Op = to })
			}
		case *ast.IfStmt:
			add(x.Cond.Pos(), "negate-if", exprString(fset, x.Cond), func() {
				x.Cond = &ast.UnaryExpr{Op: token.NOT, X: &ast.ParenExpr{X: x.Cond}}
			})
		case *ast.ForStmt:
			if x.Cond != nil {
				add(x.Cond.Pos(), "negate-for", exprString(fset, x.Cond), func() {
					x.Cond = &ast.UnaryExpr{Op: token.NOT, X: &ast.ParenExpr{X: x.Cond}}
				})
			}
		case *ast.BasicLit:
			if x.Kind == token.INT {
				if v, err := strconv.ParseInt(x.Value, 0, 64); err == nil {
					nv := v + 1
					if v == 1 {
						nv = 0
					}
					old := x.Value
					add(x.Pos(), "int-lit", fmt.Sprintf("%s -> %d", old, nv), func() { x.Value = strconv.FormatInt(nv, 10) })
				}
			}
		case *ast.ReturnStmt:
			for i, r := range x.Results {
				i := i
				if id, ok := r.(*ast.Ident); ok {
					switch id.Name {
					case "true":
						add(r.Pos(), "ret-flip", "true -> false", func() { x.Results[i] = ast.NewIdent("false") })
					case "false":
						add(r.Pos(), "ret-flip", "false -> true", func() { x.Results[i] = ast.NewIdent("true") })
					case "err":
						add(r.Pos(), "ret-swallow", "err -> nil", func() { x.Results[i] = ast.NewIdent("nil") })
					}
				}
			}
		case *ast.IncDecStmt:
			add(x.Pos(), "incdec", exprString(fset, x), func() {
				if x.Tok == token.INC {
					x.Tok = token.DEC
				} else {
					x.Tok = token.INC
				}
			})
		}
		return true
	})
	return ms
}

// simple reports whether a statement is one of the plain statements whose order a maintainer may get wrong.
func simple(st ast.Stmt) bool {
	switch s := st.(type) {
	case *ast.ExprStmt, *ast.IncDecStmt, *ast.SendStmt, *ast.GoStmt, *ast.DeferStmt:
		return true
	case *ast.AssignStmt:
		return s.Tok != token.DEFINE
	}
	return false
}

// enumerateOrder: the second operator set - order and primitive mix-ups, the slips that only a schedule shows.
func enumerateOrder(fset *token.FileSet, f *ast.File) []mutant {
	var ms []mutant
	line := func(p token.Pos) int { return fset.Position(p).Line }
	add := func(p token.Pos, op, detail string, apply func()) {
		ms = append(ms, mutant{line(p), op, detail, apply})
	}
	stmtList := func(list *[]ast.Stmt) {
		for i := 0; i+1 < len(*list); i++ {
			i := i
			a, b := (*list)[i], (*list)[i+1]
			if simple(a) && simple(b) {
				add(a.Pos(), "swap-stmts", exprString(fset, a)+"  <->  "+exprString(fset, b), func() {
					(*list)[i], (*list)[i+1] = (*list)[i+1], (*list)[i]
				})
			}
		}
		for i := range *list {
			i := i
			if g, ok := (*list)[i].(*ast.GoStmt); ok {
				add(g.Pos(), "ungo", exprString(fset, g), func() { (*list)[i] = &ast.ExprStmt{X: g.Call} })
			}
		}
	}
	rename := map[string]string{"Signal": "Broadcast", "Broadcast": "Signal", "Lock": "RLock", "RLock": "Lock", "Unlock": "RUnlock", "RUnlock": "Unlock",
		"PushBack": "PushFront", "PushFront": "PushBack", "Front": "Back", "Back": "Front"}
	ast.Inspect(f, func(n ast.Node) bool {
		switch x := n.(type) {
		case *ast.GenDecl:
			if x.Tok == token.CONST || x.Tok == token.IMPORT || x.Tok == token.TYPE {
				return false
			}
		case *ast.BlockStmt:
			stmtList(&x.List)
		case *ast.CaseClause:
			stmtList(&x.Body)
		case *ast.CommClause:
			stmtList(&x.Body)
		case *ast.CallExpr:
			if sel, ok := x.Fun.(*ast.SelectorExpr); ok {
				if to, ok := rename[sel.Sel.Name]; ok {
					from := sel.Sel.Name
					add(sel.Sel.Pos(), "rename-call", fmt.Sprintf("%s -> %s in %s", from, to, exprString(fset, x)), func() { sel.Sel = ast.NewIdent(to) })
				}
			}
		}
		return true
	})
	return ms
}
