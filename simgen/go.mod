module verif.local/simgen

go 1.19
