// simgen rewrites Go packages of a scratch copy of the repository for deterministic simulation:
// import substitution (sync, time, math/rand, crypto/rand, net -> verif.local/simrt/sim*), go
// statements -> simrt.Go, select statements -> simulator-ordered polling, receive/send outside
// select -> simrt.Recv/Recv2/Send, and a simrt.Point before every statement.
//
// usage: simgen -root <dir> [-sites <out.json>] pkgdir...
// Exit status 2 on anything it cannot transform (never a silent skip).
package main

import (
	"bytes"
	"encoding/json"
	"flag"
	"fmt"
	"go/ast"
	"go/format"
	"go/parser"
	"go/token"
	"os"
	"path/filepath"
	"reflect"
	"sort"
	"strconv"
	"strings"
)

var importMap = map[string]string{
	"sync":        "verif.local/simrt/simsync",
	"time":        "verif.local/simrt/simtime",
	"math/rand":   "verif.local/simrt/simrand",
	"crypto/rand": "verif.local/simrt/simcrand",
	"net":         "verif.local/simrt/simnet",
}

const rtName = "_simrt"

type site struct {
	ID   int    `json:"id"`
	File string `json:"file"`
	Line int    `json:"line"`
	Kind string `json:"kind"`
}

var (
	sites   []site
	noPoint = flag.Bool("nopoints", false, "do not insert statement-level preemption points")
	withTests = flag.Bool("tests", false, "also transform *_test.go files (translation validation: the packages' own tests on the transformed tree)")
)

func fatalf(format string, a ...interface{}) {
	fmt.Fprintf(os.Stderr, "simgen: "+format+"\n", a...)
	os.Exit(2)
}

type xf struct {
	fset     *token.FileSet
	rel      string
	used     bool
	tmp      int
	results  []bool          // stack: does the enclosing function have results
	external map[string]bool // import names of packages outside the repository module (un-instrumented callers of callbacks)
	quiet    int             // >0: inside a callback handed to un-instrumented code: no preemption points
}

func (x *xf) site(pos token.Pos, kind string) ast.Expr {
	p := x.fset.Position(pos)
	id := len(sites) + 1
	sites = append(sites, site{ID: id, File: x.rel, Line: p.Line, Kind: kind})
	return &ast.BasicLit{Kind: token.INT, Value: strconv.Itoa(id)}
}

func (x *xf) rt(fn string, args ...ast.Expr) *ast.CallExpr {
	x.used = true
	return &ast.CallExpr{Fun: &ast.SelectorExpr{X: ast.NewIdent(rtName), Sel: ast.NewIdent(fn)}, Args: args}
}

func (x *xf) fresh(prefix string) string {
	x.tmp++
	return fmt.Sprintf("_sim_%s%d", prefix, x.tmp)
}

func id(n string) *ast.Ident { return ast.NewIdent(n) }

func define(name string, v ast.Expr) ast.Stmt {
	return &ast.AssignStmt{Lhs: []ast.Expr{id(name)}, Tok: token.DEFINE, Rhs: []ast.Expr{v}}
}

func assign(lhs ast.Expr, v ast.Expr) ast.Stmt {
	return &ast.AssignStmt{Lhs: []ast.Expr{lhs}, Tok: token.ASSIGN, Rhs: []ast.Expr{v}}
}

func intLit(i int) ast.Expr { return &ast.BasicLit{Kind: token.INT, Value: strconv.Itoa(i)} }

func isRecv(e ast.Expr) (*ast.UnaryExpr, bool) {
	for {
		p, ok := e.(*ast.ParenExpr)
		if !ok {
			break
		}
		e = p.X
	}
	u, ok := e.(*ast.UnaryExpr)
	if ok && u.Op == token.ARROW {
		return u, true
	}
	return nil, false
}

// list transforms a statement list: a Point before every statement, each statement transformed.
func (x *xf) list(l []ast.Stmt) []ast.Stmt {
	var out []ast.Stmt
	for _, s := range l {
		if s == nil {
			continue
		}
		if _, ok := s.(*ast.EmptyStmt); ok {
			out = append(out, s)
			continue
		}
		if !*noPoint && x.quiet == 0 {
			out = append(out, &ast.ExprStmt{X: x.rt("Point", x.site(s.Pos(), "point"))})
		}
		out = append(out, x.stmt(s)...)
	}
	return out
}

// single transforms a statement in a position that takes exactly one statement.
func (x *xf) single(s ast.Stmt) ast.Stmt {
	if s == nil || reflect.ValueOf(s).IsNil() {
		return nil
	}
	r := x.stmt(s)
	if len(r) == 1 {
		return r[0]
	}
	return &ast.BlockStmt{List: r}
}

func (x *xf) stmt(s ast.Stmt) []ast.Stmt {
	switch n := s.(type) {
	case *ast.GoStmt:
		return x.goStmt(n)
	case *ast.SelectStmt:
		return x.selectStmt(n)
	case *ast.SendStmt:
		x.walk(reflect.ValueOf(n))
		return []ast.Stmt{&ast.ExprStmt{X: x.rt("Send", n.Chan, n.Value)}}
	case *ast.AssignStmt:
		if len(n.Lhs) == 2 && len(n.Rhs) == 1 {
			if u, ok := isRecv(n.Rhs[0]); ok {
				x.walkExprField(&u.X)
				n.Rhs[0] = x.rt("Recv2", u.X)
				for i := range n.Lhs {
					x.walkExprField(&n.Lhs[i])
				}
				return []ast.Stmt{n}
			}
		}
		x.walk(reflect.ValueOf(n))
		return []ast.Stmt{n}
	case *ast.DeclStmt:
		if gd, ok := n.Decl.(*ast.GenDecl); ok && gd.Tok == token.VAR {
			for _, sp := range gd.Specs {
				vs := sp.(*ast.ValueSpec)
				if len(vs.Names) == 2 && len(vs.Values) == 1 {
					if u, ok := isRecv(vs.Values[0]); ok {
						x.walkExprField(&u.X)
						vs.Values[0] = x.rt("Recv2", u.X)
						continue
					}
				}
				for i := range vs.Values {
					x.walkExprField(&vs.Values[i])
				}
			}
		}
		return []ast.Stmt{n}
	case *ast.LabeledStmt:
		if _, ok := n.Stmt.(*ast.SelectStmt); ok {
			fatalf("%s: labelled select statements are not supported", x.fset.Position(n.Pos()))
		}
		if rs, ok := n.Stmt.(*ast.RangeStmt); ok {
			pre, loop, post := x.rangeStmt(rs)
			n.Stmt = loop
			return append(append(pre, n), post...)
		}
		n.Stmt = x.single(n.Stmt)
		return []ast.Stmt{n}
	case *ast.RangeStmt:
		pre, loop, post := x.rangeStmt(n)
		return []ast.Stmt{&ast.BlockStmt{List: append(append(pre, loop), post...)}}
	case *ast.BlockStmt:
		n.List = x.list(n.List)
		return []ast.Stmt{n}
	case *ast.ForStmt:
		x.walk(reflect.ValueOf(s))
		if n.Body != nil && len(n.Body.List) == 0 && !*noPoint && x.quiet == 0 {
			// a loop with an empty body (a spin on its condition) still needs a preemption point, or a spin that never
			// ends is a real hang instead of a step-budget report
			n.Body.List = []ast.Stmt{&ast.ExprStmt{X: x.rt("Point", x.site(n.Body.Pos(), "point"))}}
		}
		return []ast.Stmt{s}
	default:
		x.walk(reflect.ValueOf(s))
		return []ast.Stmt{s}
	}
}

var (
	exprType = reflect.TypeOf((*ast.Expr)(nil)).Elem()
	stmtType = reflect.TypeOf((*ast.Stmt)(nil)).Elem()
)

// walkExprField rewrites the expression stored at *p (receive -> Recv; FuncLit bodies transformed).
func (x *xf) walkExprField(p *ast.Expr) {
	if *p == nil {
		return
	}
	if u, ok := (*p).(*ast.UnaryExpr); ok && u.Op == token.ARROW {
		x.walkExprField(&u.X)
		*p = x.rt("Recv", u.X)
		return
	}
	x.walk(reflect.ValueOf(*p))
}

// walk visits the children of a node generically.
func (x *xf) walk(v reflect.Value) {
	if !v.IsValid() {
		return
	}
	switch v.Kind() {
	case reflect.Interface:
		if v.IsNil() {
			return
		}
		x.walk(v.Elem())
		return
	case reflect.Ptr:
		if v.IsNil() {
			return
		}
		switch n := v.Interface().(type) {
		case *ast.BlockStmt:
			n.List = x.list(n.List)
			return
		case *ast.CaseClause:
			for i := range n.List {
				x.walkExprField(&n.List[i])
			}
			n.Body = x.list(n.Body)
			return
		case *ast.CommClause:
			fatalf("%s: unexpected comm clause", x.fset.Position(n.Pos()))
		case *ast.SwitchStmt:
			n.Init = x.single(n.Init)
			x.walkExprField(&n.Tag)
			for _, c := range n.Body.List {
				x.walk(reflect.ValueOf(c))
			}
			return
		case *ast.TypeSwitchStmt:
			n.Init = x.single(n.Init)
			n.Assign = x.single(n.Assign)
			for _, c := range n.Body.List {
				x.walk(reflect.ValueOf(c))
			}
			return
		case *ast.CallExpr:
			// a function literal handed to a package outside the repository (sort.Slice, slices.SortFunc, ...) is called
			// back by un-instrumented code a data-dependent number of times (e.g. a comparator whose call count depends on
			// map iteration order): it gets no preemption points, so that the point count of a run stays reproducible
			if sel, ok := n.Fun.(*ast.SelectorExpr); ok {
				if idn, ok := sel.X.(*ast.Ident); ok && x.external[idn.Name] {
					x.walkExprField(&n.Fun)
					for i := range n.Args {
						if _, isLit := n.Args[i].(*ast.FuncLit); isLit {
							x.quiet++
							x.walkExprField(&n.Args[i])
							x.quiet--
						} else {
							x.walkExprField(&n.Args[i])
						}
					}
					return
				}
			}
			if ix, ok := n.Fun.(*ast.IndexExpr); ok { // generic instantiation: slices.SortFunc[T](...)
				if sel, ok := ix.X.(*ast.SelectorExpr); ok {
					if idn, ok := sel.X.(*ast.Ident); ok && x.external[idn.Name] {
						for i := range n.Args {
							if _, isLit := n.Args[i].(*ast.FuncLit); isLit {
								x.quiet++
								x.walkExprField(&n.Args[i])
								x.quiet--
							} else {
								x.walkExprField(&n.Args[i])
							}
						}
						return
					}
				}
			}
		case *ast.FuncLit:
			x.results = append(x.results, n.Type.Results != nil && len(n.Type.Results.List) > 0)
			n.Body.List = x.list(n.Body.List)
			x.results = x.results[:len(x.results)-1]
			return
		case *ast.Ident, *ast.BasicLit, *ast.Object, *ast.Scope, *ast.CommentGroup, *ast.Comment:
			return
		}
		x.walkStruct(v.Elem())
	}
}

func (x *xf) walkStruct(sv reflect.Value) {
	if sv.Kind() != reflect.Struct {
		return
	}
	for i := 0; i < sv.NumField(); i++ {
		f := sv.Field(i)
		ft := f.Type()
		switch {
		case ft == exprType:
			if f.IsNil() {
				continue
			}
			e := f.Interface().(ast.Expr)
			x.walkExprField(&e)
			f.Set(reflect.ValueOf(e))
		case ft == stmtType:
			if f.IsNil() {
				continue
			}
			st := f.Interface().(ast.Stmt)
			f.Set(reflect.ValueOf(x.single(st)))
		case ft.Kind() == reflect.Slice && ft.Elem() == exprType:
			for j := 0; j < f.Len(); j++ {
				e := f.Index(j).Interface().(ast.Expr)
				x.walkExprField(&e)
				f.Index(j).Set(reflect.ValueOf(e))
			}
		case ft.Kind() == reflect.Slice && ft.Elem() == stmtType:
			// only reached for node kinds not special-cased above
			l := f.Interface().([]ast.Stmt)
			f.Set(reflect.ValueOf(x.list(l)))
		case ft.Kind() == reflect.Slice && ft.Elem().Kind() == reflect.Ptr:
			for j := 0; j < f.Len(); j++ {
				x.walk(f.Index(j))
			}
		case ft.Kind() == reflect.Ptr:
			x.walk(f)
		case ft.Kind() == reflect.Interface:
			x.walk(f)
		}
	}
}

// rangeStmt guards a range loop against being a loop over a channel (simgen has no type information): the ranged
// operand is evaluated once, simrt.IsChan looks at it once, and if it is a channel every iteration - and the exit -
// starts with simrt.Woke, so that a goroutine woken natively by the receive parks before it touches anything.
func (x *xf) rangeStmt(rs *ast.RangeStmt) (pre []ast.Stmt, loop ast.Stmt, post []ast.Stmt) {
	st := x.site(rs.Pos(), "range")
	x.walkExprField(&rs.X)
	if rs.Key != nil {
		x.walkExprField(&rs.Key)
	}
	if rs.Value != nil {
		x.walkExprField(&rs.Value)
	}
	rx, isch := x.fresh("rx"), x.fresh("isch")
	pre = []ast.Stmt{define(rx, rs.X), define(isch, x.rt("IsChan", id(rx)))}
	rs.X = id(rx)
	guard := func() ast.Stmt {
		return &ast.IfStmt{Cond: id(isch), Body: &ast.BlockStmt{List: []ast.Stmt{&ast.ExprStmt{X: x.rt("Woke", st)}}}}
	}
	rs.Body.List = append([]ast.Stmt{guard()}, x.list(rs.Body.List)...)
	return pre, rs, []ast.Stmt{guard()}
}

func simpleArg(e ast.Expr) bool {
	switch n := e.(type) {
	case *ast.BasicLit:
		return true
	case *ast.Ident:
		return n.Name == "nil" || n.Name == "true" || n.Name == "false"
	}
	return false
}

func (x *xf) goStmt(g *ast.GoStmt) []ast.Stmt {
	call := g.Call
	st := x.site(g.Pos(), "go")
	var pre []ast.Stmt
	// function value
	var fun ast.Expr
	if fl, ok := call.Fun.(*ast.FuncLit); ok {
		x.walk(reflect.ValueOf(fl))
		if len(call.Args) == 0 {
			return []ast.Stmt{&ast.ExprStmt{X: x.rt("Go", st, fl)}}
		}
		fun = fl
	} else {
		if idn, ok := call.Fun.(*ast.Ident); ok {
			switch idn.Name {
			case "close", "panic", "print", "println", "delete", "copy", "append", "recover":
				fatalf("%s: go statement on builtin %s is not supported", x.fset.Position(g.Pos()), idn.Name)
			}
		}
		x.walkExprField(&call.Fun)
		fn := x.fresh("f")
		pre = append(pre, define(fn, call.Fun))
		fun = id(fn)
	}
	var args []ast.Expr
	for i := range call.Args {
		x.walkExprField(&call.Args[i])
		if simpleArg(call.Args[i]) {
			args = append(args, call.Args[i])
			continue
		}
		an := x.fresh("a")
		pre = append(pre, define(an, call.Args[i]))
		args = append(args, id(an))
	}
	inner := &ast.CallExpr{Fun: fun, Args: args}
	if call.Ellipsis.IsValid() {
		inner.Ellipsis = 1
	}
	lit := &ast.FuncLit{Type: &ast.FuncType{Params: &ast.FieldList{}}, Body: &ast.BlockStmt{List: []ast.Stmt{&ast.ExprStmt{X: inner}}}}
	pre = append(pre, &ast.ExprStmt{X: x.rt("Go", st, lit)})
	return []ast.Stmt{&ast.BlockStmt{List: pre}}
}

// hasFreeBreak reports an unlabelled break that would leave the select.
func hasFreeBreak(list []ast.Stmt) bool {
	found := false
	var visit func(n ast.Node) bool
	visit = func(n ast.Node) bool {
		switch b := n.(type) {
		case *ast.ForStmt, *ast.RangeStmt, *ast.SwitchStmt, *ast.TypeSwitchStmt, *ast.SelectStmt, *ast.FuncLit:
			return false
		case *ast.BranchStmt:
			if b.Tok == token.BREAK && b.Label == nil {
				found = true
			}
		}
		return true
	}
	for _, s := range list {
		ast.Inspect(s, visit)
	}
	return found
}

func terminates(list []ast.Stmt) bool {
	if len(list) == 0 {
		return false
	}
	switch n := list[len(list)-1].(type) {
	case *ast.ReturnStmt:
		return true
	case *ast.BranchStmt:
		return n.Tok == token.GOTO
	case *ast.ExprStmt:
		if c, ok := n.X.(*ast.CallExpr); ok {
			if f, ok := c.Fun.(*ast.Ident); ok && f.Name == "panic" {
				return true
			}
		}
	case *ast.BlockStmt:
		return terminates(n.List)
	}
	return false
}

func (x *xf) selectStmt(sel *ast.SelectStmt) []ast.Stmt {
	type cas struct {
		cc      *ast.CommClause
		send    bool
		ch      string
		val     string
		r, ok   string
		bind    []ast.Expr // lhs of the receive
		bindTok token.Token
	}
	var cases []*cas
	var def *ast.CommClause
	for _, c := range sel.Body.List {
		cc := c.(*ast.CommClause)
		if cc.Comm == nil {
			def = cc
			continue
		}
		cases = append(cases, &cas{cc: cc})
	}
	st := x.site(sel.Pos(), "select")
	if len(cases) == 0 {
		// `select {}` or default-only: keep, with transformed bodies
		for _, c := range sel.Body.List {
			cc := c.(*ast.CommClause)
			cc.Body = x.list(cc.Body)
		}
		return []ast.Stmt{sel, &ast.ExprStmt{X: x.rt("Woke", st)}}
	}
	allTerm := true
	freeBreak := false
	for _, c := range sel.Body.List {
		cc := c.(*ast.CommClause)
		if !terminates(cc.Body) {
			allTerm = false
		}
		if hasFreeBreak(cc.Body) {
			freeBreak = true
		}
	}
	n := x.tmp + 1
	x.tmp++
	nm := func(p string, i int) string { return fmt.Sprintf("_sim%d_%s%d", n, p, i) }
	selVar := fmt.Sprintf("_sim%d_sel", n)
	kVar := fmt.Sprintf("_sim%d_k", n)
	var pre []ast.Stmt
	var blank []ast.Expr
	// 1. evaluate channel operands and send values once, in source order
	for i, c := range cases {
		switch comm := c.cc.Comm.(type) {
		case *ast.SendStmt:
			c.send = true
			x.walkExprField(&comm.Chan)
			x.walkExprField(&comm.Value)
			c.ch, c.val = nm("c", i), nm("v", i)
			pre = append(pre, define(c.ch, comm.Chan))
			pre = append(pre, define(c.val, x.rt("ElemOf", id(c.ch), comm.Value)))
		case *ast.ExprStmt:
			u, ok := isRecv(comm.X)
			if !ok {
				fatalf("%s: unsupported comm clause", x.fset.Position(comm.Pos()))
			}
			x.walkExprField(&u.X)
			c.ch = nm("c", i)
			pre = append(pre, define(c.ch, u.X))
		case *ast.AssignStmt:
			if len(comm.Rhs) != 1 {
				fatalf("%s: unsupported comm clause", x.fset.Position(comm.Pos()))
			}
			u, ok := isRecv(comm.Rhs[0])
			if !ok {
				fatalf("%s: unsupported comm clause", x.fset.Position(comm.Pos()))
			}
			x.walkExprField(&u.X)
			c.ch = nm("c", i)
			pre = append(pre, define(c.ch, u.X))
			c.bind, c.bindTok = comm.Lhs, comm.Tok
			c.r, c.ok = nm("r", i), nm("ok", i)
		default:
			fatalf("%s: unsupported comm clause", x.fset.Position(c.cc.Pos()))
		}
	}
	for _, c := range cases {
		if c.r != "" {
			pre = append(pre, define(c.r, x.rt("Zero", id(c.ch))))
			pre = append(pre, define(c.ok, id("false")))
			blank = append(blank, id(c.r), id(c.ok))
		}
	}
	pre = append(pre, define(selVar, &ast.UnaryExpr{Op: token.SUB, X: intLit(1)}))
	pre = append(pre, &ast.ExprStmt{X: x.rt("SelBegin", st, intLit(len(cases)))})

	comm := func(c *cas) ast.Stmt {
		if c.send {
			return &ast.SendStmt{Chan: id(c.ch), Value: id(c.val)}
		}
		rx := &ast.UnaryExpr{Op: token.ARROW, X: id(c.ch)}
		if c.r != "" {
			return &ast.AssignStmt{Lhs: []ast.Expr{id(c.r), id(c.ok)}, Tok: token.ASSIGN, Rhs: []ast.Expr{rx}}
		}
		return &ast.ExprStmt{X: rx}
	}
	// 2. polling pass in simulator order
	var pollCases []ast.Stmt
	for i, c := range cases {
		one := &ast.SelectStmt{Body: &ast.BlockStmt{List: []ast.Stmt{
			&ast.CommClause{Comm: comm(c), Body: []ast.Stmt{assign(id(selVar), intLit(i))}},
			&ast.CommClause{},
		}}}
		pollCases = append(pollCases, &ast.CaseClause{List: []ast.Expr{intLit(i)}, Body: []ast.Stmt{one}})
	}
	poll := &ast.ForStmt{
		Init: define(kVar, intLit(0)),
		Cond: &ast.BinaryExpr{X: &ast.BinaryExpr{X: id(kVar), Op: token.LSS, Y: intLit(len(cases))}, Op: token.LAND,
			Y: &ast.BinaryExpr{X: id(selVar), Op: token.LSS, Y: intLit(0)}},
		Post: &ast.IncDecStmt{X: id(kVar), Tok: token.INC},
		Body: &ast.BlockStmt{List: []ast.Stmt{&ast.SwitchStmt{Tag: x.rt("SelPick", id(kVar)), Body: &ast.BlockStmt{List: pollCases}}}},
	}
	pre = append(pre, poll)
	// 3. nothing ready: default, or block natively on the original set
	var notReady []ast.Stmt
	if def != nil {
		notReady = append(notReady, assign(id(selVar), intLit(len(cases))))
	} else {
		var cl []ast.Stmt
		for i, c := range cases {
			cl = append(cl, &ast.CommClause{Comm: comm(c), Body: []ast.Stmt{assign(id(selVar), intLit(i))}})
		}
		notReady = append(notReady, &ast.SelectStmt{Body: &ast.BlockStmt{List: cl}})
		notReady = append(notReady, &ast.ExprStmt{X: x.rt("Woke", st)})
	}
	pre = append(pre, &ast.IfStmt{Cond: &ast.BinaryExpr{X: id(selVar), Op: token.LSS, Y: intLit(0)}, Body: &ast.BlockStmt{List: notReady}})
	if len(blank) > 0 {
		lhs := make([]ast.Expr, len(blank))
		for i := range lhs {
			lhs[i] = id("_")
		}
		pre = append(pre, &ast.AssignStmt{Lhs: lhs, Tok: token.ASSIGN, Rhs: blank})
	}
	// 4. run the chosen body
	var bodies []ast.Stmt
	for i, c := range cases {
		var b []ast.Stmt
		if c.bind != nil {
			rhs := []ast.Expr{id(c.r)}
			if len(c.bind) == 2 {
				rhs = append(rhs, id(c.ok))
			}
			for j := range c.bind {
				x.walkExprField(&c.bind[j])
			}
			b = append(b, &ast.AssignStmt{Lhs: c.bind, Tok: c.bindTok, Rhs: rhs})
		}
		b = append(b, x.list(c.cc.Body)...)
		bodies = append(bodies, &ast.CaseClause{List: []ast.Expr{intLit(i)}, Body: b})
	}
	if def != nil {
		bodies = append(bodies, &ast.CaseClause{List: []ast.Expr{intLit(len(cases))}, Body: x.list(def.Body)})
	}
	pre = append(pre, &ast.SwitchStmt{Tag: id(selVar), Body: &ast.BlockStmt{List: bodies}})
	out := []ast.Stmt{&ast.BlockStmt{List: pre}}
	if allTerm && !freeBreak {
		out = append(out, &ast.ExprStmt{X: &ast.CallExpr{Fun: id("panic"), Args: []ast.Expr{&ast.BasicLit{Kind: token.STRING, Value: `"simgen: unreachable"`}}}})
	}
	return out
}

func processFile(fset *token.FileSet, root, path string) {
	rel, _ := filepath.Rel(root, path)
	f, err := parser.ParseFile(fset, path, nil, parser.ParseComments)
	if err != nil {
		fatalf("parse %s: %v", path, err)
	}
	// keep only comments before the package clause (build constraints)
	var keep []*ast.CommentGroup
	for _, cg := range f.Comments {
		if cg.End() < f.Package && cg != f.Doc {
			keep = append(keep, cg)
		}
	}
	f.Comments = keep
	f.Doc = nil
	ast.Inspect(f, func(n ast.Node) bool {
		switch d := n.(type) {
		case *ast.FuncDecl:
			d.Doc = nil
		case *ast.GenDecl:
			d.Doc = nil
		case *ast.Field:
			d.Doc, d.Comment = nil, nil
		case *ast.ValueSpec:
			d.Doc, d.Comment = nil, nil
		case *ast.TypeSpec:
			d.Doc, d.Comment = nil, nil
		case *ast.ImportSpec:
			d.Doc, d.Comment = nil, nil
		}
		return true
	})
	for _, im := range f.Imports {
		p, _ := strconv.Unquote(im.Path.Value)
		if np, ok := importMap[p]; ok {
			im.Path.Value = strconv.Quote(np)
			im.EndPos = 0
		}
	}
	x := &xf{fset: fset, rel: rel, external: map[string]bool{}}
	for _, im := range f.Imports {
		p, _ := strconv.Unquote(im.Path.Value)
		if strings.HasPrefix(p, "github.com/pinealctx/neptune") || strings.HasPrefix(p, "verif.local/") {
			continue
		}
		name := p[strings.LastIndex(p, "/")+1:]
		if im.Name != nil {
			name = im.Name.Name
		}
		x.external[name] = true
	}
	for _, d := range f.Decls {
		switch fd := d.(type) {
		case *ast.FuncDecl:
			if fd.Body != nil {
				x.results = []bool{fd.Type.Results != nil && len(fd.Type.Results.List) > 0}
				fd.Body.List = x.list(fd.Body.List)
			}
		case *ast.GenDecl:
			if fd.Tok == token.VAR {
				for _, sp := range fd.Specs {
					vs := sp.(*ast.ValueSpec)
					for i := range vs.Values {
						x.walkExprField(&vs.Values[i])
					}
				}
			}
		}
	}
	if x.used {
		spec := &ast.ImportSpec{Name: id(rtName), Path: &ast.BasicLit{Kind: token.STRING, Value: `"verif.local/simrt"`}}
		gd := &ast.GenDecl{Tok: token.IMPORT, Specs: []ast.Spec{spec}}
		f.Decls = append([]ast.Decl{gd}, f.Decls...)
		f.Imports = append(f.Imports, spec)
	}
	var buf bytes.Buffer
	// print through a fresh fileset-less config: positions of new nodes are zero
	if err := format.Node(&buf, fset, f); err != nil {
		fatalf("print %s: %v", path, err)
	}
	// re-parse as a sanity check
	if _, err := parser.ParseFile(token.NewFileSet(), path, buf.Bytes(), 0); err != nil {
		fatalf("re-parse %s: %v", path, err)
	}
	if err := os.WriteFile(path, buf.Bytes(), 0o644); err != nil {
		fatalf("write %s: %v", path, err)
	}
}

func main() {
	root := flag.String("root", "", "root of the scratch copy")
	sitesOut := flag.String("sites", "", "write the site table here")
	flag.Parse()
	if *root == "" || flag.NArg() == 0 {
		fatalf("usage: simgen -root <dir> pkgdir...")
	}
	fset := token.NewFileSet()
	for _, dir := range flag.Args() {
		full := filepath.Join(*root, dir)
		ents, err := os.ReadDir(full)
		if err != nil {
			fatalf("read %s: %v", full, err)
		}
		var names []string
		for _, e := range ents {
			if e.IsDir() || !strings.HasSuffix(e.Name(), ".go") || (strings.HasSuffix(e.Name(), "_test.go") && !*withTests) {
				continue
			}
			names = append(names, e.Name())
		}
		sort.Strings(names)
		for _, nme := range names {
			processFile(fset, *root, filepath.Join(full, nme))
		}
	}
	if *sitesOut != "" {
		b, _ := json.Marshal(sites)
		if err := os.WriteFile(*sitesOut, b, 0o644); err != nil {
			fatalf("write sites: %v", err)
		}
	}
}
