package simrt

import "reflect"

// Generic channel helpers that simgen substitutes for receive expressions and send statements
// outside select, so that a goroutine woken natively parks before it touches anything.

type RecvChan[T any] interface{ ~chan T | ~<-chan T }
type SendChan[T any] interface{ ~chan T | ~chan<- T }

// Zero returns the zero value of the channel's element type (declares select temporaries).
func Zero[C RecvChan[T], T any](c C) (z T) { return }

// Recv is `<-c`.
func Recv[C RecvChan[T], T any](c C) T {
	v := <-c
	Woke(0)
	return v
}

// Recv2 is `v, ok := <-c`.
func Recv2[C RecvChan[T], T any](c C) (T, bool) {
	v, ok := <-c
	Woke(0)
	return v, ok
}

// Send is `c <- v`.
func Send[C SendChan[T], T any](c C, v T) {
	c <- v
	Woke(0)
}

// ElemOf converts v to the channel's element type (declares a select send temporary).
func ElemOf[C SendChan[T], T any](c C, v T) T { return v }

// IsChan reports whether the operand of a range statement is a channel (simgen guards such loops with Woke).
func IsChan(x interface{}) bool {
	if x == nil {
		return false
	}
	return reflect.TypeOf(x).Kind() == reflect.Chan
}
