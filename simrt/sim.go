// Package simrt is the deterministic-simulation runtime used by the /verif checks.
//
// Tasks are real goroutines; exactly one of them (the baton holder) runs at a time. The controller
// (the goroutine that called Run, normally the root of a testing/synctest bubble) waits until every
// other goroutine is durably blocked, looks at the task table, picks one runnable task from the
// scheduling tape / PRNG and releases it. Nothing in here reads a real clock, a map iteration order
// or a goroutine id to *decide* anything; goroutine ids are used only to find the Task of a
// goroutine that was woken natively by a channel operation.
package simrt

import (
	"fmt"
	"runtime"
	"runtime/debug"
	"sort"
	"strconv"
	"strings"
	"sync"
	"sync/atomic"
	"time"
)

// State of a task at a quiescent instant.
type State int

const (
	Running State = iota // holds the baton (or is about to be classified Native)
	Parked               // parked on its wake channel; runnable iff pred == nil || pred()
	Native               // blocked in an unmodified channel operation / select
	Done
)

func (s State) String() string {
	switch s {
	case Running:
		return "running"
	case Parked:
		return "parked"
	case Native:
		return "native-blocked"
	case Done:
		return "done"
	}
	return "?"
}

// Task is one simulated goroutine.
type Task struct {
	Idx  int // creation index: deterministic because only baton holders spawn
	Name string

	sim      *Sim
	wake     chan struct{}
	state    State
	pred     func() bool
	waitDesc string
	goid     int64
	holds    int // exclusive sim locks held
	api      int // depth of calls into the code under test (harness bookkeeping)
	apiName  string
	selPerm  []int
	prio     int64 // PCT priority (higher runs first)
	PanicVal interface{}
	PanicStk string
	Daemon   bool // allowed to stay blocked at the end of the run
	lastSite int
}

// Config holds every knob of one run. All fields are plain data so a scenario can be stored as JSON.
type Config struct {
	Seed          uint64  `json:"seed"`
	Tape          []uint8 `json:"tape"`
	YieldPermille int     `json:"yield_permille"` // chance that a Point yields
	StickPermille int     `json:"stick_permille"` // post-tape: chance to stay on the current task
	SuppressLock  bool    `json:"suppress_lock"`  // no yields at Points while holding an exclusive sim lock
	SyncPermille  int     `json:"sync_permille"`  // chance that a lock operation yields first (0 = always)
	MaxSteps      int     `json:"max_steps"`
	KeepLog       bool    `json:"-"`
	PCTDepth      int     `json:"pct_depth"`        // > 0: PCT scheduling with this many priority-change points (the tape is ignored)
	PCTSteps      int     `json:"pct_steps"`        // change points are drawn in [0, PCTSteps)
	TickPerReadNs int64   `json:"tick_per_read_ns"` // wall/mono advance per clock read
	// EagerTimerPermille > 0: "slow task" fault - at a scheduling decision the earliest timer may fire (and the clock jump to it)
	// although tasks are still runnable: those tasks were slow, the sleeper woke up beside them. Off (0) unless a check asks for it:
	// every timeout then may expire while its party is merely slow.
	EagerTimerPermille int   `json:"eager_timer_permille,omitempty"`
	BaseUnixMs         int64 `json:"base_unix_ms"`
}

// Violation is the first oracle failure of a run.
type Violation struct {
	Class string `json:"class"`
	Msg   string `json:"msg"`
	Step  int    `json:"step"`
}

// TaskInfo describes an unfinished task in a Result.
type TaskInfo struct {
	Idx   int    `json:"idx"`
	Name  string `json:"name"`
	State string `json:"state"`
	Wait  string `json:"wait"`
	API   string `json:"api"`
}

// Result of one run.
type Result struct {
	Steps      int            `json:"steps"`
	Switches   int            `json:"switches"`
	Points     int            `json:"points"`
	Tasks      int            `json:"tasks"`
	Stuck      bool           `json:"stuck"`
	Budget     bool           `json:"budget_exceeded"`
	Unfinished []TaskInfo     `json:"unfinished,omitempty"`
	Panics     []string       `json:"panics,omitempty"`
	Violation  *Violation     `json:"violation,omitempty"`
	LogHash    string         `json:"log_hash"`
	Log        []string       `json:"log,omitempty"`
	SimTimeNs  int64          `json:"sim_time_ns"`
	Counts     map[string]int `json:"counts,omitempty"`
	Pairs      map[uint64]int `json:"-"`
	TapeUsed   int            `json:"tape_used"`
}

type timer struct {
	at  time.Duration
	seq uint64
	fn  func()
}

// Sim is one simulation run.
type Sim struct {
	cfg     Config
	wait    func()
	noYield int // > 0: Points do not yield (see NoYield)

	mu     sync.Mutex // real mutex: task table, byGoid
	tasks  []*Task
	byGoid map[int64]*Task
	cur    *Task
	last   *Task

	now     time.Duration
	wallOff time.Duration
	timers  []timer
	tseq    uint64

	rng        uint64
	tapePos    int
	steps      int
	switches   int
	points     int
	maxPoints  int
	overPoints bool

	hash   uint64
	log    []string
	counts map[string]int
	pairs  map[uint64]int

	viol   *Violation
	stuck  bool
	budget bool

	pctChange map[int]bool // steps at which the running task's priority drops below everybody's
	pctLow    int64

	// OnQuiescent, if set, is called by the controller at every quiescent instant before it
	// chooses the next task. It must not block.
	OnQuiescent func(s *Sim)
	// OnAdvance, if set, is called when no task can run at the current simulated instant and the clock is about to
	// jump to the next timer. It must not block.
	OnAdvance func(s *Sim, to time.Duration)
	// Clock, if set, replaces the default wall clock (base + mono + offset).
	Clock func(t *Task) time.Time
	// Values the harness wants to hang on the run.
	Data interface{}
}

var active *Sim

// Active returns the running simulation or nil.
func Active() *Sim { return active }

// New makes a simulation. wait must block until every other goroutine of the bubble is durably
// blocked (testing/synctest.Wait).
func New(cfg Config, wait func()) *Sim {
	if cfg.MaxSteps <= 0 {
		cfg.MaxSteps = 200000
	}
	if cfg.BaseUnixMs == 0 {
		cfg.BaseUnixMs = 1700000000000
	}
	s := &Sim{cfg: cfg, wait: wait, byGoid: map[int64]*Task{}, counts: map[string]int{}, pairs: map[uint64]int{}}
	// no run of the unchanged code passes a million points (measured: evidence counters runs-with-more-than-1e5/1e6/1e7-points)
	s.maxPoints = 20 * cfg.MaxSteps
	if s.maxPoints < 20000000 {
		s.maxPoints = 20000000
	}
	s.rng = cfg.Seed*0x9E3779B97F4A7C15 + 0x1234567
	s.hash = 14695981039346656037
	if cfg.PCTDepth > 0 {
		// PCT (Burckhardt et al.): random task priorities, d-1 priority-change points at random steps
		n := cfg.PCTSteps
		if n <= 0 {
			n = 200
		}
		s.pctChange = map[int]bool{}
		for i := 0; i < cfg.PCTDepth; i++ {
			s.pctChange[int(s.next64()%uint64(n))] = true
		}
	}
	return s
}

func (s *Sim) next64() uint64 {
	s.rng += 0x9E3779B97F4A7C15
	z := s.rng
	z = (z ^ (z >> 30)) * 0xBF58476D1CE4E5B9
	z = (z ^ (z >> 27)) * 0x94D049BB133111EB
	return z ^ (z >> 31)
}

// choice returns the next scheduling choice: from the tape while it lasts, then from the PRNG.
func (s *Sim) choice(n int, sticky bool) int {
	if n <= 1 {
		return 0
	}
	if s.tapePos < len(s.cfg.Tape) {
		v := int(s.cfg.Tape[s.tapePos])
		s.tapePos++
		return v % n
	}
	r := s.next64()
	if sticky && int(r%1000) < s.cfg.StickPermille {
		return 0
	}
	return int((r >> 16) % uint64(n))
}

func (s *Sim) hashStr(x string) {
	h := s.hash
	for i := 0; i < len(x); i++ {
		h ^= uint64(x[i])
		h *= 1099511628211
	}
	h ^= 0xff
	h *= 1099511628211
	s.hash = h
}

// Logf appends an event to the run's event log (and hash). Call only while holding the baton or from
// the controller.
func (s *Sim) Logf(format string, args ...interface{}) {
	var line string
	if len(args) == 0 {
		line = format
	} else {
		line = fmt.Sprintf(format, args...)
	}
	s.hashStr(line)
	if s.cfg.KeepLog {
		s.log = append(s.log, strconv.Itoa(s.steps)+" "+line)
	}
}

// Count bumps a named counter (fault kinds fired, probes hit).
func (s *Sim) Count(name string) { s.counts[name]++ }

// Fail records the first violation of the run and stops scheduling.
func (s *Sim) Fail(class, format string, args ...interface{}) {
	if s.viol != nil {
		return
	}
	s.viol = &Violation{Class: class, Msg: fmt.Sprintf(format, args...), Step: s.steps}
	s.Logf("VIOLATION %s: %s", class, s.viol.Msg)
}

// advancing tells the harness that every task is blocked at the current simulated instant and the clock is about to
// jump to the next timer (oracles of the form "this must have happened without waiting for a timeout").
func (s *Sim) advancing(to time.Duration) {
	defer func() {
		if r := recover(); r != nil {
			s.Fail("state-unreadable", "the harness's clock-advance observer panicked: %v", r)
		}
	}()
	s.OnAdvance(s, to)
}

// observe runs the harness's quiescent-state observer. The observer reads the state of the code under test (through the
// verif hooks); if that state is so broken that reading it panics (a nil shard, a nil entry stored in a table), that is
// a finding about the code, not trouble of the machinery: it is reported as a violation with the panic text.
func (s *Sim) observe() {
	defer func() {
		if r := recover(); r != nil {
			s.Fail("state-unreadable", "reading the state of the code under test at a quiescent instant panicked: %v", r)
		}
	}()
	s.OnQuiescent(s)
}

// Failed reports whether a violation was recorded.
func (s *Sim) Failed() bool { return s.viol != nil }

// Step is the global scheduling step counter: the stamp for invoke/return events.
func (s *Sim) Step() int { return s.steps }

// Now is the simulated monotonic time.
func (s *Sim) Now() time.Duration { return s.now }

// Cfg returns the configuration.
func (s *Sim) Cfg() Config { return s.cfg }

// WallNow is the default simulated wall clock.
func (s *Sim) WallNow() time.Time {
	if s.cfg.TickPerReadNs > 0 {
		s.now += time.Duration(s.cfg.TickPerReadNs)
	}
	return time.UnixMilli(s.cfg.BaseUnixMs).Add(s.now + s.wallOff)
}

// WallPeek is the wall clock without the per-read tick (deadline arithmetic of the simulated network).
func (s *Sim) WallPeek() time.Time {
	return time.UnixMilli(s.cfg.BaseUnixMs).Add(s.now + s.wallOff)
}

// ShiftWall moves the wall clock relative to the monotonic one (fault injection).
func (s *Sim) ShiftWall(d time.Duration) { s.wallOff += d }

// Advance moves the monotonic clock forward by d (harness "advance" operations). Timers that become
// due fire at the next quiescent instant.
func (s *Sim) Advance(d time.Duration) {
	if d > 0 {
		s.now += d
	}
}

// After registers fn to run in the controller when the simulated clock reaches now+d.
func (s *Sim) After(d time.Duration, fn func()) {
	if d < 0 {
		d = 0
	}
	s.tseq++
	s.timers = append(s.timers, timer{at: s.now + d, seq: s.tseq, fn: fn})
}

func (s *Sim) popTimer() (timer, bool) {
	if len(s.timers) == 0 {
		return timer{}, false
	}
	bi := 0
	for i, t := range s.timers {
		b := s.timers[bi]
		if t.at < b.at || (t.at == b.at && t.seq < b.seq) {
			bi = i
		}
	}
	t := s.timers[bi]
	s.timers = append(s.timers[:bi], s.timers[bi+1:]...)
	return t, true
}

// Cur returns the task holding the baton, or nil (controller / outside a simulation).
func Cur() *Task {
	s := active
	if s == nil {
		return nil
	}
	return s.cur
}

func goid() int64 {
	var buf [64]byte
	n := runtime.Stack(buf[:], false)
	// "goroutine 123 ["
	f := strings.Fields(string(buf[:n]))
	if len(f) < 2 {
		return -1
	}
	id, _ := strconv.ParseInt(f[1], 10, 64)
	return id
}

func (s *Sim) spawn(name string, f func()) *Task {
	if len(s.tasks) >= maxTasks && s.cur != nil {
		// a loop that starts goroutines without end: the run is over its budget (no run of correct code starts
		// more than a few dozen)
		s.runaway(s.cur)
	}
	t := &Task{Idx: len(s.tasks), Name: name, sim: s, wake: make(chan struct{}), state: Parked}
	if s.pctChange != nil {
		t.prio = int64(s.next64()>>2) + 1000
	}
	s.mu.Lock()
	s.tasks = append(s.tasks, t)
	s.mu.Unlock()
	s.Logf("spawn %d %s", t.Idx, name)
	go func() {
		g := goid()
		s.mu.Lock()
		t.goid = g
		s.byGoid[g] = t
		s.mu.Unlock()
		<-t.wake
		defer func() {
			if r := recover(); r != nil {
				if _, ok := r.(abortT); !ok {
					t.PanicVal = r
					t.PanicStk = string(debug.Stack())
					s.Logf("panic %d %v", t.Idx, r)
				}
			}
			s.mu.Lock()
			t.state = Done
			delete(s.byGoid, g)
			s.mu.Unlock()
		}()
		f()
		s.Logf("done %d", t.Idx)
	}()
	return t
}

type abortT struct{}

// Go starts a simulated goroutine (what simgen turns `go f()` into). Outside a simulation, or when
// called by a goroutine that is not the baton holder, it is a plain go statement.
func Go(site int, f func()) {
	s := active
	if s == nil || s.cur == nil {
		go f()
		return
	}
	s.spawn("go@"+strconv.Itoa(site), f)
}

// GoNamed starts a named task from harness code.
func GoNamed(name string, f func()) *Task {
	s := active
	if s == nil {
		panic("simrt.GoNamed outside a simulation")
	}
	return s.spawn(name, f)
}

// park parks the calling task (the baton holder) until the controller releases it again.
func (s *Sim) park(t *Task, pred func() bool, desc string) {
	s.mu.Lock()
	t.state = Parked
	t.pred = pred
	t.waitDesc = desc
	s.mu.Unlock()
	<-t.wake
}

const maxTasks = 20000

// runaway ends a run whose tasks have passed far more preemption points than any run of correct code does (a loop that
// never ends and never gives up the baton, e.g. a spin on a condition nothing changes any more): the run is over its
// budget, the task is parked for good and the controller takes over.
func (s *Sim) runaway(t *Task) {
	s.overPoints = true
	s.park(t, func() bool { return false }, "runaway")
}

// Block parks the baton holder until pred() holds (evaluated by the controller at quiescent
// instants). Used by the sim shims. Returns immediately if pred already holds.
func (s *Sim) Block(t *Task, pred func() bool, desc string) {
	for !pred() {
		s.park(t, pred, desc)
	}
}

// Yield is an unconditional preemption point for harness code.
func Yield() {
	s := active
	if s == nil {
		return
	}
	t := s.cur
	if t == nil {
		return
	}
	s.points++
	s.park(t, nil, "")
}

// YieldSync is the preemption point the sync shims put in front of lock operations.
func (s *Sim) YieldSync(t *Task) {
	s.points++
	if s.cfg.SyncPermille <= 0 || s.cfg.SyncPermille >= 1000 || int(s.next64()%1000) < s.cfg.SyncPermille {
		s.park(t, nil, "")
	}
}

// Outside a simulation (the sequential fault harnesses call transformed code directly) the points are counted against
// a budget the harness sets per scenario, so that a loop that never ends is reported like a run over its step budget
// instead of hanging the worker until the watchdog kills it.
var (
	realBudget int64
	realPoints int64
)

// Runaway is the panic value raised when the budget is exhausted.
type Runaway struct{ Points int64 }

func (r Runaway) Error() string {
	return fmt.Sprintf("more than %d statements executed by one sequential scenario (runaway loop)", r.Points)
}

// SetRealBudget arms (n > 0) or disarms (0) the budget and resets the counter; returns the points counted since the last call.
func SetRealBudget(n int64) int64 {
	old := atomic.SwapInt64(&realPoints, 0)
	atomic.StoreInt64(&realBudget, n)
	return old
}

// Point is the statement-level preemption point inserted by simgen.
func Point(site int) {
	s := active
	if s == nil {
		if b := atomic.LoadInt64(&realBudget); b > 0 && atomic.AddInt64(&realPoints, 1) > b {
			atomic.StoreInt64(&realBudget, 0)
			panic(Runaway{b})
		}
		return
	}
	t := s.cur
	if t == nil || s.noYield > 0 {
		return
	}
	s.points++
	t.lastSite = site
	if s.points > s.maxPoints {
		s.runaway(t)
	}
	if t.holds > 0 && s.cfg.SuppressLock {
		return
	}
	if s.cfg.YieldPermille < 1000 && int(s.next64()%1000) >= s.cfg.YieldPermille {
		return
	}
	s.park(t, nil, "")
}

// NoYield runs f (harness code calling read-only hooks of the transformed packages from inside a task) without yielding
// at the preemption points f passes: what f reads is one instant.
func (s *Sim) NoYield(f func()) {
	s.noYield++
	defer func() { s.noYield-- }()
	f()
}

// Woke must be called by a task right after a native channel operation that may have blocked. A
// goroutine that was woken natively is not the baton holder: it parks here before touching anything.
func Woke(site int) {
	s := active
	if s == nil {
		return
	}
	g := goid()
	s.mu.Lock()
	t := s.byGoid[g]
	if t == nil {
		s.mu.Unlock()
		return
	}
	if t == s.cur && t.state == Running {
		s.mu.Unlock()
		return // did not block: still the baton holder
	}
	t.state = Parked
	t.pred = nil
	t.waitDesc = ""
	s.mu.Unlock()
	<-t.wake
}

// SelBegin draws the polling order for a select with n communication cases.
func SelBegin(site int, n int) {
	s := active
	if s == nil {
		return
	}
	t := s.cur
	if t == nil {
		return
	}
	perm := make([]int, n)
	for i := range perm {
		perm[i] = i
	}
	if n >= 2 {
		// r-th permutation via factorial number system; r = 0 is the identity.
		f := 1
		for i := 2; i <= n && i <= 5; i++ {
			f *= i
		}
		r := s.choice(f, false)
		for i := 0; i < n-1 && r > 0; i++ {
			m := n - i
			if m > 5 {
				continue
			}
			j := i + r%m
			r /= m
			perm[i], perm[j] = perm[j], perm[i]
		}
	}
	t.selPerm = perm
}

// SelPick returns the case index to poll at position k.
func SelPick(k int) int {
	s := active
	if s == nil || s.cur == nil || k >= len(s.cur.selPerm) {
		return k
	}
	return s.cur.selPerm[k]
}

// Tasks returns the task table (controller / quiescent use only).
func (s *Sim) Tasks() []*Task { return s.tasks }

// State of the task as seen at a quiescent instant.
func (t *Task) State() State { return t.state }

// Runnable: parked and its predicate (if any) holds.
func (t *Task) Runnable() bool { return t.state == Parked && (t.pred == nil || t.pred()) }

// Blocked: waiting for something other than the scheduler.
func (t *Task) Blocked() bool {
	return t.state == Native || (t.state == Parked && t.pred != nil && !t.pred())
}

// WaitDesc says what a sim-blocked task waits for.
func (t *Task) WaitDesc() string {
	if t.state == Native {
		return "native"
	}
	return t.waitDesc
}

// Holds is the number of exclusive sim locks held.
func (t *Task) Holds() int { return t.holds }

// AddHold is used by the sync shims.
func (t *Task) AddHold(d int) { t.holds += d }

// EnterAPI / ExitAPI bracket a call into the code under test (harness bookkeeping).
func (t *Task) EnterAPI(name string) { t.api++; t.apiName = name }
func (t *Task) ExitAPI() {
	t.api--
	if t.api == 0 {
		t.apiName = ""
	}
}

// InAPI reports whether the task is inside a call into the code under test.
func (t *Task) InAPI() bool     { return t.api > 0 }
func (t *Task) APIName() string { return t.apiName }

// APIQuiescent: every task is outside any call into the code under test, or blocked inside one.
func (s *Sim) APIQuiescent() bool {
	for _, t := range s.tasks {
		if t.state == Done {
			continue
		}
		if t.InAPI() && !t.Blocked() {
			return false
		}
		if !t.InAPI() && t.Name != "" && strings.HasPrefix(t.Name, "go@") && !t.Blocked() {
			// a goroutine of the code under test that is runnable: in the middle of its own work
			return false
		}
	}
	return true
}

// Run executes main as task 0 and schedules until everything is done, stuck, failed or over budget.
func (s *Sim) Run(main func()) *Result {
	if active != nil {
		panic("simrt: nested simulation")
	}
	active = s
	defer func() { active = nil }()
	s.spawn("main", main)
	flushed := false
	for {
		s.wait()
		s.mu.Lock()
		if s.cur != nil && s.cur.state == Running {
			s.cur.state = Native
		}
		if s.cur != nil {
			s.last = s.cur
		}
		s.cur = nil
		var runnable []*Task
		alldone := true
		for _, t := range s.tasks {
			if t.state != Done && !t.Daemon {
				alldone = false
			}
			if t.Runnable() {
				runnable = append(runnable, t)
			}
		}
		s.mu.Unlock()
		if s.overPoints {
			s.budget = true
			break
		}
		if s.OnQuiescent != nil && s.viol == nil {
			s.observe()
		}
		if s.viol != nil {
			break
		}
		if len(runnable) == 0 {
			if tm, ok := s.popTimer(); ok {
				if tm.at > s.now {
					// nothing can run any more at this instant: the clock has to move for anything further to happen
					if s.OnAdvance != nil && s.viol == nil {
						s.advancing(tm.at)
						if s.viol != nil {
							break
						}
					}
					s.now = tm.at
				}
				if tm.fn != nil {
					tm.fn()
				}
				flushed = false
				continue
			}
			if alldone {
				break
			}
			if !flushed {
				// let stray real timers inside dependencies (bubble clock) fire once
				time.Sleep(10 * time.Minute)
				flushed = true
				continue
			}
			s.stuck = true
			break
		}
		flushed = false
		if s.steps >= s.cfg.MaxSteps {
			s.budget = true
			break
		}
		if s.cfg.EagerTimerPermille > 0 && len(s.timers) > 0 && int(s.next64()%1000) < s.cfg.EagerTimerPermille {
			if tm, ok := s.popTimer(); ok {
				if tm.at > s.now {
					s.now = tm.at
				}
				s.counts["timer-fired-while-tasks-runnable"]++
				s.Logf("eager timer -> t=%v", s.now)
				if tm.fn != nil {
					tm.fn()
				}
				continue
			}
		}
		// order: last-run task first (choice 0 = no preemption), then by creation index
		sort.Slice(runnable, func(i, j int) bool { return runnable[i].Idx < runnable[j].Idx })
		if s.last != nil {
			for i, t := range runnable {
				if t == s.last {
					copy(runnable[1:i+1], runnable[0:i])
					runnable[0] = t
					break
				}
			}
		}
		var t *Task
		if s.pctChange != nil {
			for _, r := range runnable {
				if t == nil || r.prio > t.prio {
					t = r
				}
			}
			if s.pctChange[s.steps] {
				s.pctLow--
				t.prio = s.pctLow // from now on everybody else goes first
			}
		} else {
			t = runnable[s.choice(len(runnable), true)]
		}
		s.steps++
		if s.last != nil && t != s.last {
			s.switches++
			s.pairs[uint64(uint32(s.last.lastSite))<<32|uint64(uint32(t.lastSite))]++
		}
		if len(runnable) > 1 {
			s.Logf("s %d/%d", t.Idx, len(runnable))
		}
		s.mu.Lock()
		t.state = Running
		t.pred = nil
		s.cur = t
		s.mu.Unlock()
		t.wake <- struct{}{}
	}
	return s.result()
}

func (s *Sim) result() *Result {
	r := &Result{Steps: s.steps, Switches: s.switches, Points: s.points, Tasks: len(s.tasks), Stuck: s.stuck,
		Budget: s.budget, Violation: s.viol, SimTimeNs: int64(s.now), Counts: s.counts, Pairs: s.pairs,
		TapeUsed: s.tapePos}
	for _, t := range s.tasks {
		if t.PanicVal != nil {
			r.Panics = append(r.Panics, fmt.Sprintf("task %d %s: %v", t.Idx, t.Name, t.PanicVal))
		}
		if t.state != Done {
			r.Unfinished = append(r.Unfinished, TaskInfo{Idx: t.Idx, Name: t.Name, State: t.state.String(), Wait: t.WaitDesc(), API: t.apiName})
		}
	}
	r.LogHash = strconv.FormatUint(s.hash, 16)
	r.Log = s.log
	return r
}

// FirstPanicStack returns the stack of the first task panic (for reports).
func (s *Sim) FirstPanicStack() string {
	for _, t := range s.tasks {
		if t.PanicVal != nil {
			return t.PanicStk
		}
	}
	return ""
}
