// Package rand is the simulation stand-in for crypto/rand (import path verif.local/simrt/simcrand):
// Reader is a deterministic stream the harness seeds (and may make fail).
package rand

import (
	"errors"
	"io"
	"math/big"
	rrand "math/rand"
	rsync "sync"
)

type simReader struct{}

var (
	mu      rsync.Mutex
	src     = rrand.New(rrand.NewSource(2))
	FailAll bool // fault injection: every read fails
)

// SimSeed reseeds the stream (harness).
func SimSeed(seed int64) { mu.Lock(); src = rrand.New(rrand.NewSource(seed)); mu.Unlock() }

func (simReader) Read(p []byte) (int, error) {
	mu.Lock()
	defer mu.Unlock()
	if FailAll {
		return 0, errors.New("simcrand: injected failure")
	}
	return src.Read(p)
}

var Reader io.Reader = simReader{}

func Read(b []byte) (int, error) { return io.ReadFull(Reader, b) }

func Int(r io.Reader, max *big.Int) (*big.Int, error) {
	if max.Sign() <= 0 {
		panic("crypto/rand: argument to Int is <= 0")
	}
	n := new(big.Int)
	bl := max.BitLen()
	buf := make([]byte, (bl+7)/8+8)
	if _, err := io.ReadFull(r, buf); err != nil {
		return nil, err
	}
	n.SetBytes(buf)
	return n.Mod(n, max), nil
}
