// Package net is the simulation stand-in for the standard net package (import path
// verif.local/simrt/simnet). Interfaces are aliases; Listen is served by a simulated network the
// harness installs (see sim.go in this package).
package net

import (
	rnet "net"
)

type (
	Conn     = rnet.Conn
	Listener = rnet.Listener
	Error    = rnet.Error
	Addr     = rnet.Addr
	OpError  = rnet.OpError
	TCPConn  = rnet.TCPConn
	TCPAddr  = rnet.TCPAddr
)

var ErrClosed = rnet.ErrClosed

// ListenHook is installed by the harness; nil means real sockets (never inside a bubble).
var ListenHook func(network, address string) (rnet.Listener, error)

func Listen(network, address string) (rnet.Listener, error) {
	if ListenHook != nil {
		return ListenHook(network, address)
	}
	return rnet.Listen(network, address)
}

// DialHook likewise.
var DialHook func(network, address string) (rnet.Conn, error)

func Dial(network, address string) (rnet.Conn, error) {
	if DialHook != nil {
		return DialHook(network, address)
	}
	return rnet.Dial(network, address)
}
