package net

import (
	"errors"
	"io"
	rnet "net"
	"os"
	"strconv"
	rtime "time"

	"verif.local/simrt"
)

// Simulated network: listeners the harness dials, full-duplex byte pipes with bounded buffers,
// deadlines on the simulated clock, and fault handles. All blocking goes through simrt.Block, so the
// scheduler knows what every task waits for.

// Err is the error type of the simulated network (implements net.Error and Temporary()).
type Err struct {
	Msg  string
	Tmo  bool
	Temp bool
}

func (e *Err) Error() string   { return e.Msg }
func (e *Err) Timeout() bool   { return e.Tmo }
func (e *Err) Temporary() bool { return e.Temp }
func (e *Err) Is(target error) bool {
	if e.Tmo && target == os.ErrDeadlineExceeded {
		return true
	}
	return false
}

type simAddr string

func (a simAddr) Network() string { return "sim" }
func (a simAddr) String() string  { return string(a) }

// Net is one simulated network.
type Net struct {
	sim       *simrt.Sim
	listeners map[string]*SimListener
	BufSize   int
	nconn     int
}

// NewNet installs a simulated network as the target of Listen for the duration of a run.
func NewNet(s *simrt.Sim, bufSize int) *Net {
	n := &Net{sim: s, listeners: map[string]*SimListener{}, BufSize: bufSize}
	ListenHook = func(network, address string) (rnet.Listener, error) {
		if _, dup := n.listeners[address]; dup {
			return nil, &Err{Msg: "listen " + address + ": address already in use"}
		}
		l := &SimListener{net: n, addr: simAddr(address)}
		n.listeners[address] = l
		return l, nil
	}
	return n
}

// Uninstall removes the hook.
func (n *Net) Uninstall() { ListenHook = nil }

// Listener returns the listener bound to address (nil until the server listens).
func (n *Net) Listener(address string) *SimListener { return n.listeners[address] }

type acceptEvent struct {
	conn *SimConn
	err  error
}

// SimListener is a simulated net.Listener.
type SimListener struct {
	net    *Net
	addr   simAddr
	queue  []acceptEvent
	closed bool
	// Accepted counts successful accepts.
	Accepted int
}

func (l *SimListener) Accept() (rnet.Conn, error) {
	s := l.net.sim
	t := simrt.Cur()
	if t != nil {
		s.Block(t, func() bool { return l.closed || len(l.queue) > 0 }, "net.accept")
	}
	if l.closed {
		return nil, &Err{Msg: "accept: use of closed network connection"}
	}
	if len(l.queue) == 0 {
		return nil, &Err{Msg: "accept: would block outside a task"}
	}
	ev := l.queue[0]
	l.queue = l.queue[1:]
	if ev.err != nil {
		s.Count("net-accept-error-injected")
		return nil, ev.err
	}
	l.Accepted++
	return ev.conn, nil
}

func (l *SimListener) Close() error {
	if l.closed {
		return &Err{Msg: "close: use of closed network connection"}
	}
	l.closed = true
	return nil
}

func (l *SimListener) Addr() rnet.Addr { return l.addr }

// InjectAcceptError makes a future Accept fail with err (in queue order with pending connections).
func (l *SimListener) InjectAcceptError(err error) { l.queue = append(l.queue, acceptEvent{err: err}) }

// Dial connects a harness-side client to the listener: returns the client end.
func (l *SimListener) Dial(name string) *SimConn {
	n := l.net
	n.nconn++
	c2s := &pipe{cap: n.BufSize}
	s2c := &pipe{cap: n.BufSize}
	client := &SimConn{net: n, r: s2c, w: c2s, local: simAddr(name), remote: l.addr, Name: name + "/client"}
	server := &SimConn{net: n, r: c2s, w: s2c, local: l.addr, remote: simAddr(name), Name: name + "/server"}
	client.peer, server.peer = server, client
	l.queue = append(l.queue, acceptEvent{conn: server})
	return client
}

// Pipe makes a connected pair without going through a listener (a session the application starts itself).
func (n *Net) Pipe(name string) (client, server *SimConn) {
	n.nconn++
	c2s := &pipe{cap: n.BufSize}
	s2c := &pipe{cap: n.BufSize}
	client = &SimConn{net: n, r: s2c, w: c2s, local: simAddr(name), remote: simAddr("direct"), Name: name + "/client"}
	server = &SimConn{net: n, r: c2s, w: s2c, local: simAddr("direct"), remote: simAddr(name), Name: name + "/server"}
	client.peer, server.peer = server, client
	return client, server
}

// pipe is one direction of a connection.
type pipe struct {
	buf      []byte
	cap      int
	wclosed  bool // writer closed: reader gets EOF after draining
	reset    bool // connection reset: both sides fail at once
	rclosed  bool // reader closed: writer fails
	Total    int  // bytes ever written
	Consumed int
}

// SimConn is one end of a simulated connection.
type SimConn struct {
	net           *Net
	r, w          *pipe
	peer          *SimConn
	local, remote simAddr
	Name          string
	closed        bool
	rdl, wdl      rtime.Duration // deadlines on the simulated monotonic clock; 0 = none
	hasR, hasW    bool
	// Closes counts Close calls (exactly-once checks).
	Closes int
	// FailSetDeadline makes SetRead/WriteDeadline fail (fault injection).
	FailSetDeadline bool
	// FailWriteDeadlineN / FailReadDeadlineN make the next N SetWriteDeadline / SetReadDeadline calls fail (a transient fault).
	FailWriteDeadlineN, FailReadDeadlineN int
	// CloseErr, if set, is returned by the first Close although the connection is closed all the same
	// (like tls.Conn when the close-notify alert cannot be sent).
	CloseErr error
}

// Peer returns the other end of the connection (harness access to the server side for fault handles).
func (c *SimConn) Peer() *SimConn { return c.peer }

var errClosedConn = &Err{Msg: "use of closed network connection"}

func (c *SimConn) Read(p []byte) (int, error) {
	s := c.net.sim
	t := simrt.Cur()
	if len(p) == 0 {
		return 0, nil
	}
	ready := func() bool {
		return c.closed || c.r.reset || len(c.r.buf) > 0 || c.r.wclosed || (c.hasR && s.Now() >= c.rdl)
	}
	if t != nil && !ready() {
		if c.hasR {
			s.After(c.rdl-s.Now(), nil)
		}
		s.Block(t, ready, "net.read "+c.Name)
	}
	switch {
	case c.closed:
		return 0, errClosedConn
	case c.r.reset:
		return 0, &Err{Msg: "read: connection reset by peer"}
	case len(c.r.buf) > 0:
		n := copy(p, c.r.buf)
		c.r.buf = c.r.buf[n:]
		c.r.Consumed += n
		return n, nil
	case c.r.wclosed:
		return 0, io.EOF
	case c.hasR && s.Now() >= c.rdl:
		s.Count("net-read-timeout")
		return 0, &Err{Msg: "read: i/o timeout", Tmo: true, Temp: true}
	}
	return 0, &Err{Msg: "read: would block outside a task"}
}

func (c *SimConn) Write(p []byte) (int, error) {
	s := c.net.sim
	t := simrt.Cur()
	written := 0
	for {
		switch {
		case c.closed:
			return written, errClosedConn
		case c.w.reset:
			return written, &Err{Msg: "write: connection reset by peer"}
		case c.w.rclosed:
			return written, &Err{Msg: "write: broken pipe"}
		}
		if room := c.w.cap - len(c.w.buf); room > 0 {
			n := len(p) - written
			if n > room {
				n = room
			}
			c.w.buf = append(c.w.buf, p[written:written+n]...)
			c.w.Total += n
			written += n
		}
		if written == len(p) {
			return written, nil
		}
		if c.hasW && s.Now() >= c.wdl {
			s.Count("net-write-timeout")
			return written, &Err{Msg: "write: i/o timeout", Tmo: true, Temp: true}
		}
		if t == nil {
			return written, &Err{Msg: "write: would block outside a task"}
		}
		if c.hasW {
			s.After(c.wdl-s.Now(), nil)
		}
		s.Block(t, func() bool {
			return c.closed || c.w.reset || c.w.rclosed || len(c.w.buf) < c.w.cap || (c.hasW && s.Now() >= c.wdl)
		}, "net.write "+c.Name)
	}
}

// Close closes this end: the peer reads EOF after draining what was written, and its writes fail.
func (c *SimConn) Close() error {
	c.Closes++
	if c.closed {
		return errClosedConn
	}
	c.closed = true
	c.w.wclosed = true
	c.r.rclosed = true
	if s := c.net.sim; s != nil {
		s.Logf("net close %s", c.Name)
	}
	if c.CloseErr != nil {
		if s := c.net.sim; s != nil {
			s.Count("net-close-returns-error")
		}
		return c.CloseErr
	}
	return nil
}

// Reset aborts the connection (fault): both ends fail immediately, buffered data is dropped.
func (c *SimConn) Reset() {
	c.r.reset, c.w.reset = true, true
	c.r.buf, c.w.buf = nil, nil
	c.net.sim.Count("net-reset")
	c.net.sim.Logf("net reset %s", c.Name)
}

// Closed reports whether this end was closed locally.
func (c *SimConn) Closed() bool { return c.closed }

// PeerClosed reports whether the other end closed (or the connection was reset).
func (c *SimConn) PeerClosed() bool { return c.r.wclosed || c.r.reset }

// Received is the number of bytes this end has consumed.
func (c *SimConn) Received() int { return c.r.Consumed }

func (c *SimConn) LocalAddr() rnet.Addr  { return c.local }
func (c *SimConn) RemoteAddr() rnet.Addr { return c.remote }

func (c *SimConn) toMono(t rtime.Time) (rtime.Duration, bool) {
	if t.IsZero() {
		return 0, false
	}
	s := c.net.sim
	return s.Now() + t.Sub(s.WallPeek()), true
}

func (c *SimConn) SetDeadline(t rtime.Time) error {
	if err := c.SetReadDeadline(t); err != nil {
		return err
	}
	return c.SetWriteDeadline(t)
}

func (c *SimConn) SetReadDeadline(t rtime.Time) error {
	if c.closed {
		return errClosedConn
	}
	if c.FailSetDeadline {
		return errors.New("simnet: injected SetReadDeadline failure")
	}
	if c.FailReadDeadlineN > 0 {
		c.FailReadDeadlineN--
		c.net.sim.Count("net-set-read-deadline-fails")
		return errors.New("simnet: injected SetReadDeadline failure (transient)")
	}
	c.rdl, c.hasR = c.toMono(t)
	return nil
}

func (c *SimConn) SetWriteDeadline(t rtime.Time) error {
	if c.closed {
		return errClosedConn
	}
	if c.FailSetDeadline {
		return errors.New("simnet: injected SetWriteDeadline failure")
	}
	if c.FailWriteDeadlineN > 0 {
		c.FailWriteDeadlineN--
		c.net.sim.Count("net-set-write-deadline-fails")
		return errors.New("simnet: injected SetWriteDeadline failure (transient)")
	}
	c.wdl, c.hasW = c.toMono(t)
	return nil
}

func itoa(i int) string { return strconv.Itoa(i) }
