// Package rand is the simulation stand-in for math/rand (import path verif.local/simrt/simrand).
// Explicitly seeded generators are the real ones; the package-level functions draw from a generator
// seeded by the harness so that runs replay.
package rand

import (
	rrand "math/rand"
	rsync "sync"
)

type (
	Rand     = rrand.Rand
	Source   = rrand.Source
	Source64 = rrand.Source64
	Zipf     = rrand.Zipf
)

var (
	New       = rrand.New
	NewSource = rrand.NewSource
	NewZipf   = rrand.NewZipf
)

var (
	mu  rsync.Mutex
	glb = rrand.New(rrand.NewSource(1))
)

// SimSeed reseeds the package-level generator (harness).
func SimSeed(seed int64) { mu.Lock(); glb = rrand.New(rrand.NewSource(seed)); mu.Unlock() }

func Seed(seed int64)                    { SimSeed(seed) }
func Int() int                           { mu.Lock(); defer mu.Unlock(); return glb.Int() }
func Intn(n int) int                     { mu.Lock(); defer mu.Unlock(); return glb.Intn(n) }
func Int31() int32                       { mu.Lock(); defer mu.Unlock(); return glb.Int31() }
func Int31n(n int32) int32               { mu.Lock(); defer mu.Unlock(); return glb.Int31n(n) }
func Int63() int64                       { mu.Lock(); defer mu.Unlock(); return glb.Int63() }
func Int63n(n int64) int64               { mu.Lock(); defer mu.Unlock(); return glb.Int63n(n) }
func Uint32() uint32                     { mu.Lock(); defer mu.Unlock(); return glb.Uint32() }
func Uint64() uint64                     { mu.Lock(); defer mu.Unlock(); return glb.Uint64() }
func Float32() float32                   { mu.Lock(); defer mu.Unlock(); return glb.Float32() }
func Float64() float64                   { mu.Lock(); defer mu.Unlock(); return glb.Float64() }
func NormFloat64() float64               { mu.Lock(); defer mu.Unlock(); return glb.NormFloat64() }
func ExpFloat64() float64                { mu.Lock(); defer mu.Unlock(); return glb.ExpFloat64() }
func Perm(n int) []int                   { mu.Lock(); defer mu.Unlock(); return glb.Perm(n) }
func Read(p []byte) (int, error)         { mu.Lock(); defer mu.Unlock(); return glb.Read(p) }
func Shuffle(n int, swap func(i, j int)) { mu.Lock(); defer mu.Unlock(); glb.Shuffle(n, swap) }
