// Package sync is the simulation stand-in for the standard sync package (import path
// verif.local/simrt/simsync; the package is *named* sync so that substituting the import path is
// enough). Outside a simulation every type delegates to the real sync package.
package sync

import (
	rsync "sync"
	"sync/atomic"

	"verif.local/simrt"
)

// Untouched parts of the real package.
type (
	Locker = rsync.Locker
	Map    = rsync.Map
)

// Pool is a deterministic LIFO pool inside a simulation (the real one depends on which P a
// goroutine runs on and on GC timing); outside it delegates to the real pool.
type Pool struct {
	New func() interface{}

	real  rsync.Pool
	items []interface{}
	owner *simrt.Sim // items belong to one simulation run: a package-level pool must not leak objects (channels!) into the next run
}

func (p *Pool) Get() interface{} {
	if simrt.Active() == nil {
		if v := p.real.Get(); v != nil {
			return v
		}
		if p.New != nil {
			return p.New()
		}
		return nil
	}
	if s := simrt.Active(); p.owner != s {
		p.owner, p.items = s, nil
	}
	if n := len(p.items); n > 0 {
		v := p.items[n-1]
		p.items = p.items[:n-1]
		return v
	}
	if p.New != nil {
		return p.New()
	}
	return nil
}

func (p *Pool) Put(v interface{}) {
	if v == nil {
		return
	}
	if simrt.Active() == nil {
		p.real.Put(v)
		return
	}
	if s := simrt.Active(); p.owner != s {
		p.owner, p.items = s, nil
	}
	p.items = append(p.items, v)
}

// WouldBlock is the panic value raised when the controller (not a task) would have to block on a
// sim primitive; invariant evaluators recover it and skip the evaluation.
type WouldBlock struct{ What string }

// SingleGoroutine is set by harnesses that drive the code under test from one goroutine without a simulation (the
// sequential fault harnesses): there a lock that is not free can never become free, so instead of hanging the worker
// process until the watchdog kills it the shim panics with SelfDeadlock and the harness reports it.
var SingleGoroutine bool

// SelfDeadlock is that panic value.
type SelfDeadlock struct{ What string }

func (d SelfDeadlock) Error() string {
	return "sync: " + d.What + " on a lock that is held and can never be released (the only goroutine is the caller)"
}

// Fatal stands for the runtime's unrecoverable "fatal error: sync: ..." aborts.
type Fatal string

func (f Fatal) Error() string { return string(f) }

func ctx() (*simrt.Sim, *simrt.Task) {
	s := simrt.Active()
	if s == nil {
		return nil, nil
	}
	return s, simrt.Cur()
}

// ---------------------------------------------------------------- Mutex

type Mutex struct {
	real   rsync.Mutex
	held   int32 // outside a simulation: 1 while the real mutex is held (misuse is reported by a panic, not a runtime abort)
	locked bool
	owner  *simrt.Task
}

func (m *Mutex) Lock() {
	s, t := ctx()
	if s == nil {
		if SingleGoroutine && !m.real.TryLock() {
			panic(SelfDeadlock{"Mutex.Lock"})
		} else if SingleGoroutine {
			atomic.StoreInt32(&m.held, 1)
			return
		}
		m.real.Lock()
		atomic.StoreInt32(&m.held, 1)
		return
	}
	if t == nil {
		if m.locked {
			panic(WouldBlock{"Mutex.Lock"})
		}
		m.locked = true
		m.owner = nil
		return
	}
	s.YieldSync(t)
	s.Block(t, func() bool { return !m.locked }, "mutex")
	m.locked = true
	m.owner = t
	t.AddHold(1)
}

func (m *Mutex) TryLock() bool {
	s, t := ctx()
	if s == nil {
		if m.real.TryLock() {
			atomic.StoreInt32(&m.held, 1)
			return true
		}
		return false
	}
	if m.locked {
		return false
	}
	m.locked = true
	m.owner = t
	if t != nil {
		t.AddHold(1)
	}
	return true
}

func (m *Mutex) Unlock() {
	s, t := ctx()
	if s == nil {
		// outside a simulation the shim is the real mutex; the misuse that the runtime answers with an unrecoverable
		// "fatal error" is turned into an ordinary panic where it can be seen without a side effect (nobody holds the lock),
		// so that a sequential harness can report it instead of losing the whole worker process
		if !atomic.CompareAndSwapInt32(&m.held, 1, 0) {
			panic(Fatal("sync: unlock of unlocked mutex"))
		}
		m.real.Unlock()
		return
	}
	if !m.locked {
		panic(Fatal("sync: unlock of unlocked mutex"))
	}
	m.locked = false
	if m.owner != nil {
		m.owner.AddHold(-1)
	}
	m.owner = nil
	if t != nil {
		s.YieldSync(t)
	}
}

// ---------------------------------------------------------------- RWMutex (Go's writer preference)

type RWMutex struct {
	real rsync.RWMutex
	// outside a simulation: the state of the real lock, so that misuse is reported by a panic instead of a runtime abort
	heldW, heldR int32

	wOwner   bool // the writer-side mutex "w" is held (a writer is pending or active)
	wTask    *simrt.Task
	announce bool // the writer has announced itself: new readers queue
	readers  int  // active readers
	pending  []*rwWaiter
}

type rwWaiter struct{ admitted bool }

func (rw *RWMutex) RLock() {
	s, t := ctx()
	if s == nil {
		if SingleGoroutine && !rw.real.TryRLock() {
			panic(SelfDeadlock{"RWMutex.RLock"})
		} else if SingleGoroutine {
			atomic.AddInt32(&rw.heldR, 1)
			return
		}
		rw.real.RLock()
		atomic.AddInt32(&rw.heldR, 1)
		return
	}
	if t == nil {
		if rw.announce {
			panic(WouldBlock{"RWMutex.RLock"})
		}
		rw.readers++
		return
	}
	s.YieldSync(t)
	if rw.announce {
		w := &rwWaiter{}
		rw.pending = append(rw.pending, w)
		s.Block(t, func() bool { return w.admitted }, "rwmutex.rlock")
		return // readers was incremented by the writer's Unlock
	}
	rw.readers++
}

func (rw *RWMutex) TryRLock() bool {
	s, _ := ctx()
	if s == nil {
		if rw.real.TryRLock() {
			atomic.AddInt32(&rw.heldR, 1)
			return true
		}
		return false
	}
	if rw.announce {
		return false
	}
	rw.readers++
	return true
}

func (rw *RWMutex) RUnlock() {
	s, t := ctx()
	if s == nil {
		if atomic.AddInt32(&rw.heldR, -1) < 0 {
			atomic.AddInt32(&rw.heldR, 1)
			panic(Fatal("sync: RUnlock of unlocked RWMutex"))
		}
		rw.real.RUnlock()
		return
	}
	if rw.readers <= 0 {
		panic(Fatal("sync: RUnlock of unlocked RWMutex"))
	}
	rw.readers--
	if t != nil {
		s.YieldSync(t)
	}
}

func (rw *RWMutex) Lock() {
	s, t := ctx()
	if s == nil {
		if SingleGoroutine && !rw.real.TryLock() {
			panic(SelfDeadlock{"RWMutex.Lock"})
		} else if SingleGoroutine {
			atomic.StoreInt32(&rw.heldW, 1)
			return
		}
		rw.real.Lock()
		atomic.StoreInt32(&rw.heldW, 1)
		return
	}
	if t == nil {
		if rw.wOwner || rw.readers > 0 {
			panic(WouldBlock{"RWMutex.Lock"})
		}
		rw.wOwner, rw.announce, rw.wTask = true, true, nil
		return
	}
	s.YieldSync(t)
	// first resolve competition with other writers
	s.Block(t, func() bool { return !rw.wOwner }, "rwmutex.lock(w)")
	rw.wOwner = true
	rw.wTask = t
	// announce to readers that there is a pending writer, then wait for active readers
	rw.announce = true
	s.Block(t, func() bool { return rw.readers == 0 }, "rwmutex.lock(readers)")
	t.AddHold(1)
}

func (rw *RWMutex) TryLock() bool {
	s, t := ctx()
	if s == nil {
		if rw.real.TryLock() {
			atomic.StoreInt32(&rw.heldW, 1)
			return true
		}
		return false
	}
	if rw.wOwner || rw.readers > 0 {
		return false
	}
	rw.wOwner, rw.announce, rw.wTask = true, true, t
	if t != nil {
		t.AddHold(1)
	}
	return true
}

func (rw *RWMutex) Unlock() {
	s, t := ctx()
	if s == nil {
		if !atomic.CompareAndSwapInt32(&rw.heldW, 1, 0) {
			panic(Fatal("sync: Unlock of unlocked RWMutex"))
		}
		rw.real.Unlock()
		return
	}
	if !rw.wOwner || !rw.announce {
		panic(Fatal("sync: Unlock of unlocked RWMutex"))
	}
	// announce to readers there is no active writer; unblock blocked readers; then allow other writers
	rw.announce = false
	for _, w := range rw.pending {
		w.admitted = true
		rw.readers++
	}
	rw.pending = nil
	rw.wOwner = false
	if rw.wTask != nil {
		rw.wTask.AddHold(-1)
	}
	rw.wTask = nil
	if t != nil {
		s.YieldSync(t)
	}
}

type rlocker RWMutex

func (r *rlocker) Lock()   { (*RWMutex)(r).RLock() }
func (r *rlocker) Unlock() { (*RWMutex)(r).RUnlock() }

func (rw *RWMutex) RLocker() Locker { return (*rlocker)(rw) }

// ---------------------------------------------------------------- Cond (Signal wakes the longest waiter)

type Cond struct {
	L Locker

	rmu     rsync.Mutex
	real    *rsync.Cond
	waiters []*condWaiter
}

type condWaiter struct{ signaled bool }

func NewCond(l Locker) *Cond { return &Cond{L: l} }

func (c *Cond) realCond() *rsync.Cond {
	c.rmu.Lock()
	defer c.rmu.Unlock()
	if c.real == nil {
		c.real = rsync.NewCond(c.L)
	}
	return c.real
}

func (c *Cond) Wait() {
	s, t := ctx()
	if s == nil {
		c.realCond().Wait()
		return
	}
	if t == nil {
		panic(WouldBlock{"Cond.Wait"})
	}
	w := &condWaiter{}
	c.waiters = append(c.waiters, w)
	c.L.Unlock()
	s.Block(t, func() bool { return w.signaled }, "cond")
	c.L.Lock()
}

func (c *Cond) Signal() {
	s, _ := ctx()
	if s == nil {
		c.realCond().Signal()
		return
	}
	if len(c.waiters) > 0 {
		c.waiters[0].signaled = true
		c.waiters = c.waiters[1:]
	}
}

func (c *Cond) Broadcast() {
	s, _ := ctx()
	if s == nil {
		c.realCond().Broadcast()
		return
	}
	for _, w := range c.waiters {
		w.signaled = true
	}
	c.waiters = nil
}

// Waiters reports how many tasks are parked in Wait (harness observation only).
func (c *Cond) Waiters() int { return len(c.waiters) }

// ---------------------------------------------------------------- Once

type Once struct {
	real    rsync.Once
	done    bool
	running bool
}

func (o *Once) Do(f func()) {
	s, t := ctx()
	if s == nil {
		o.real.Do(f)
		return
	}
	if o.done {
		return
	}
	if o.running {
		if t == nil {
			panic(WouldBlock{"Once.Do"})
		}
		s.Block(t, func() bool { return o.done }, "once")
		return
	}
	o.running = true
	defer func() {
		o.done = true
		o.running = false
	}()
	f()
}

// ---------------------------------------------------------------- WaitGroup

type WaitGroup struct {
	real rsync.WaitGroup
	n    int
}

func (wg *WaitGroup) Add(delta int) {
	s, _ := ctx()
	if s == nil {
		wg.real.Add(delta)
		return
	}
	wg.n += delta
	if wg.n < 0 {
		panic("sync: negative WaitGroup counter")
	}
}

func (wg *WaitGroup) Done() { wg.Add(-1) }

func (wg *WaitGroup) Wait() {
	s, t := ctx()
	if s == nil {
		wg.real.Wait()
		return
	}
	if t == nil {
		if wg.n != 0 {
			panic(WouldBlock{"WaitGroup.Wait"})
		}
		return
	}
	s.Block(t, func() bool { return wg.n == 0 }, "waitgroup")
}

// OnceFunc and friends are not used by the code under test; add here if a build says so.
