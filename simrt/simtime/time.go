// Package time is the simulation stand-in for the standard time package (import path
// verif.local/simrt/simtime). Types and pure functions are aliases of the real ones; Now, Since,
// Until and Sleep read the simulated clock when a simulation (or a manual clock) is active.
package time

import (
	rtime "time"

	"verif.local/simrt"
)

type (
	Time     = rtime.Time
	Duration = rtime.Duration
	Month    = rtime.Month
	Weekday  = rtime.Weekday
	Location = rtime.Location
)

const (
	Nanosecond  = rtime.Nanosecond
	Microsecond = rtime.Microsecond
	Millisecond = rtime.Millisecond
	Second      = rtime.Second
	Minute      = rtime.Minute
	Hour        = rtime.Hour

	January   = rtime.January
	February  = rtime.February
	March     = rtime.March
	April     = rtime.April
	May       = rtime.May
	June      = rtime.June
	July      = rtime.July
	August    = rtime.August
	September = rtime.September
	October   = rtime.October
	November  = rtime.November
	December  = rtime.December

	Layout      = rtime.Layout
	ANSIC       = rtime.ANSIC
	RFC3339     = rtime.RFC3339
	RFC3339Nano = rtime.RFC3339Nano
	RFC1123     = rtime.RFC1123
	Kitchen     = rtime.Kitchen
	DateTime    = "2006-01-02 15:04:05"
	DateOnly    = "2006-01-02"
	TimeOnly    = "15:04:05"
)

var (
	Local = rtime.Local
	UTC   = rtime.UTC
)

var (
	Unix            = rtime.Unix
	UnixMilli       = rtime.UnixMilli
	UnixMicro       = rtime.UnixMicro
	Date            = rtime.Date
	LoadLocation    = rtime.LoadLocation
	FixedZone       = rtime.FixedZone
	Parse           = rtime.Parse
	ParseDuration   = rtime.ParseDuration
	ParseInLocation = rtime.ParseInLocation
)

// Manual, when set and no simulation is running, is the clock (sequential harnesses outside a bubble).
var Manual func() rtime.Time

// ManualSleep, when set and no simulation is running, replaces Sleep.
var ManualSleep func(d rtime.Duration)

// Now returns the simulated wall clock without a monotonic reading.
func Now() rtime.Time {
	if s := simrt.Active(); s != nil {
		if s.Clock != nil {
			return s.Clock(simrt.Cur())
		}
		return s.WallNow()
	}
	if Manual != nil {
		return Manual()
	}
	return rtime.Now()
}

func Since(t rtime.Time) rtime.Duration { return Now().Sub(t) }
func Until(t rtime.Time) rtime.Duration { return t.Sub(Now()) }

// Sleep blocks the calling task on the simulated monotonic clock.
func Sleep(d rtime.Duration) {
	s := simrt.Active()
	if s == nil {
		if ManualSleep != nil {
			ManualSleep(d)
			return
		}
		rtime.Sleep(d)
		return
	}
	t := simrt.Cur()
	if t == nil {
		return
	}
	if d <= 0 {
		simrt.Yield()
		return
	}
	at := s.Now() + d
	s.After(d, nil)
	s.Count("sleep")
	s.Block(t, func() bool { return s.Now() >= at }, "sleep")
}
